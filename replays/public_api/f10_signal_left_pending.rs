use enum_map::enum_map;
use maybenot::action::Action;
use maybenot::constants::STATE_SIGNAL;
use maybenot::dist::{Dist, DistType};
use maybenot::event::Event;
use maybenot::state::{State, Trans};
use maybenot::{Framework, Machine, TriggerAction, TriggerEvent};
use std::time::Instant;

fn pad() -> Option<Action> {
    Some(Action::SendPadding { bypass: false, replace: false,
        timeout: Dist::new(DistType::Uniform { low: 1.0, high: 1.0 }, 0.0, 0.0), limit: None })
}

#[test]
fn f10_signal_left_pending_reaches_next_calls_lone_signaller() {
    // x: signals on NormalSent and again whenever it receives a Signal
    let x0 = State::new(enum_map! { Event::NormalSent => vec![Trans(STATE_SIGNAL, 1.0)], Event::Signal => vec![Trans(STATE_SIGNAL, 1.0)], _ => vec![] });
    let x = Machine::new(0, 0.0, 0, 0.0, vec![x0]).unwrap();
    // y: answers a Signal by signalling
    let y0 = State::new(enum_map! { Event::Signal => vec![Trans(STATE_SIGNAL, 1.0)], _ => vec![] });
    let y = Machine::new(0, 0.0, 0, 0.0, vec![y0]).unwrap();
    // z: signals on TunnelRecv; on receiving a Signal it moves to a padding state (observable)
    let z0 = State::new(enum_map! { Event::TunnelRecv => vec![Trans(STATE_SIGNAL, 1.0)], Event::Signal => vec![Trans(1, 1.0)], _ => vec![] });
    let mut z1 = State::new(enum_map! { _ => vec![] });
    z1.action = pad();
    let z = Machine::new(1000, 0.0, 0, 0.0, vec![z0, z1]).unwrap();
    let machines = vec![x, y, z];
    let t = Instant::now();
    let mut f = Framework::new(&machines, 0.0, 0.0, t, rand::thread_rng()).unwrap();
    // call 1: x signals; y answers; x gets its Signal in the second round and signals again
    let n1 = f.trigger_events(&[TriggerEvent::NormalSent], t).count();
    // z received x's signal in call 1 and moved to its padding state: expected, one action
    assert_eq!(n1, 1);
    // call 2: put z back? z is in state 1 now (no Signal row) - use a fresh framework for the clean check below
    // clean check: in call 2 ONLY z-like lone signaller signals; it must not receive its own Signal.
    let x0 = State::new(enum_map! { Event::NormalSent => vec![Trans(STATE_SIGNAL, 1.0)], Event::Signal => vec![Trans(STATE_SIGNAL, 1.0)], _ => vec![] });
    let x = Machine::new(0, 0.0, 0, 0.0, vec![x0]).unwrap();
    let y0 = State::new(enum_map! { Event::Signal => vec![Trans(STATE_SIGNAL, 1.0)], Event::PaddingRecv => vec![Trans(1, 1.0)], _ => vec![] });
    let y1 = State::new(enum_map! { _ => vec![] }); // y stops answering after PaddingRecv
    let y = Machine::new(0, 0.0, 0, 0.0, vec![y0, y1]).unwrap();
    // w: lone signaller of call 2 (on TunnelRecv); if it ever RECEIVES a Signal it pads (observable)
    let w0 = State::new(enum_map! { Event::TunnelRecv => vec![Trans(STATE_SIGNAL, 1.0)], Event::Signal => vec![Trans(1, 1.0)], _ => vec![] });
    let mut w1 = State::new(enum_map! { _ => vec![] });
    w1.action = pad();
    let w = Machine::new(1000, 0.0, 0, 0.0, vec![w0, w1]).unwrap();
    let machines = vec![x, y, w];
    let mut f = Framework::new(&machines, 0.0, 0.0, t, rand::thread_rng()).unwrap();
    // w must not be in the first call's signal rounds: it would move to state 1. So call 1 is done with w
    // shielded: impossible through the API - instead observe the leak directly on a 2-machine framework:
    drop(f);
    let x0 = State::new(enum_map! { Event::NormalSent => vec![Trans(STATE_SIGNAL, 1.0)], Event::Signal => vec![Trans(STATE_SIGNAL, 1.0)], _ => vec![] });
    let x = Machine::new(0, 0.0, 0, 0.0, vec![x0]).unwrap();
    // y answers the FIRST signal by signalling and moves on; a later Signal makes it pad (observable)
    let y0 = State::new(enum_map! { Event::Signal => vec![Trans(STATE_SIGNAL, 1.0)], Event::PaddingRecv => vec![Trans(1, 1.0)], _ => vec![] });
    let y1 = State::new(enum_map! { Event::Signal => vec![Trans(2, 1.0)], _ => vec![] });
    let mut y2 = State::new(enum_map! { _ => vec![] });
    y2.action = pad();
    let y = Machine::new(1000, 0.0, 0, 0.0, vec![y0, y1, y2]).unwrap();
    let machines = vec![x, y];
    let mut f = Framework::new(&machines, 0.0, 0.0, t, rand::thread_rng()).unwrap();
    assert_eq!(f.trigger_events(&[TriggerEvent::NormalSent], t).count(), 0); // x signals, y answers, x signals again (left pending)
    assert_eq!(f.trigger_events(&[TriggerEvent::PaddingRecv], t).count(), 0,
        "call 2: nobody signals in this call, yet y receives a Signal left over from call 1 and pads");
}
