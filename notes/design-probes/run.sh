#!/bin/bash
# usage: run.sh <harness> <cap_s> [extra kani args]
h=$1; cap=$2; shift 2
cd /tmp/probe/repo
start=$(date +%s)
timeout $cap env CARGO_NET_OFFLINE=true cargo kani -p maybenot --harness $h --target-dir /tmp/probe/kt_$h -Z stubbing "$@" > /tmp/probe/log.$h 2>&1
rc=$?
end=$(date +%s)
echo "harness=$h rc=$rc wall=$((end-start))s"
grep -E "^error|VERIFICATION|Verification Time|of [0-9]+ failed|cover properties|Failed Checks|Stub:|unwinding assertion|SATISFIED|UNSAT|Runtime decision|variables," /tmp/probe/log.$h | sort | uniq -c | sort -rn | head -30
