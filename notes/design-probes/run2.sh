#!/bin/bash
# run under memory cap 12GB
h=$1; cap=$2; shift 2
ulimit -v 30000000
exec /tmp/probe/run.sh $h $cap "$@"
