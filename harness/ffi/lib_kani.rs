//! C20 — C API harnesses (child module of maybenot-ffi's lib.rs, cfg(kani) only).
use super::*;
use maybenot::{Timer, TriggerAction};

fn any_duration() -> Duration {
    let s: u64 = kani::any();
    let n: u32 = kani::any();
    kani::assume(n < 1_000_000_000);
    Duration::new(s, n)
}

fn any_timer() -> Timer {
    match kani::any::<u8>() % 3 {
        0 => Timer::Action,
        1 => Timer::Internal,
        _ => Timer::All,
    }
}

fn any_trigger_action(m: usize, bypass: bool, replace: bool, to: Duration, du: Duration, timer: Timer) -> TriggerAction {
    let mid = MachineId::from_raw(m);
    match kani::any::<u8>() % 4 {
        0 => TriggerAction::Cancel { machine: mid, timer },
        1 => TriggerAction::SendPadding { timeout: to, bypass, replace, machine: mid },
        2 => TriggerAction::BlockOutgoing { timeout: to, duration: du, bypass, replace, machine: mid },
        _ => TriggerAction::UpdateTimer { duration: du, replace, machine: mid },
    }
}

/// field-for-field oracle, written from the header file / doc comments: kind, machine,
/// bypass<->bypass, replace<->replace, timer, durations split into secs + nanos.
pub(crate) fn action_matches(a: &TriggerAction, c: &MaybenotAction) -> bool {
    match (a, c) {
        (TriggerAction::Cancel { machine, timer }, MaybenotAction::Cancel { machine: cm, timer: ct }) => {
            *cm == machine.into_raw()
                && *ct as u32 == match timer { Timer::Action => 0, Timer::Internal => 1, Timer::All => 2 }
        }
        (TriggerAction::SendPadding { timeout, bypass, replace, machine },
         MaybenotAction::SendPadding { machine: cm, timeout: cto, replace: cr, bypass: cb }) => {
            *cm == machine.into_raw() && cr == replace && cb == bypass
                && cto.secs == timeout.as_secs() && cto.nanos == timeout.subsec_nanos()
        }
        (TriggerAction::BlockOutgoing { timeout, duration, bypass, replace, machine },
         MaybenotAction::BlockOutgoing { machine: cm, timeout: cto, replace: cr, bypass: cb, duration: cdu }) => {
            *cm == machine.into_raw() && cr == replace && cb == bypass
                && cto.secs == timeout.as_secs() && cto.nanos == timeout.subsec_nanos()
                && cdu.secs == duration.as_secs() && cdu.nanos == duration.subsec_nanos()
        }
        (TriggerAction::UpdateTimer { duration, replace, machine },
         MaybenotAction::UpdateTimer { machine: cm, duration: cdu, replace: cr }) => {
            *cm == machine.into_raw() && cr == replace
                && cdu.secs == duration.as_secs() && cdu.nanos == duration.subsec_nanos()
        }
        _ => false,
    }
}

#[kani::proof]
fn f_convert_action() {
    let m: usize = kani::any();
    let bypass: bool = kani::any();
    let replace: bool = kani::any();
    let to = any_duration();
    let du = any_duration();
    let a = any_trigger_action(m, bypass, replace, to, du, any_timer());
    let c = convert_action(&a);
    assert!(action_matches(&a, &c), "C20: converted action differs from the framework's action");
    kani::cover!(matches!(c, MaybenotAction::BlockOutgoing { bypass: true, replace: false, .. }), "block bypass-only");
    kani::cover!(matches!(c, MaybenotAction::SendPadding { bypass: false, replace: true, .. }), "pad replace-only");
}

#[kani::proof]
fn f_convert_event() {
    let id: usize = kani::any();
    let k: u8 = kani::any();
    kani::assume(k < 10);
    let ty = match k {
        0 => MaybenotEventType::NormalRecv,
        1 => MaybenotEventType::PaddingRecv,
        2 => MaybenotEventType::TunnelRecv,
        3 => MaybenotEventType::NormalSent,
        4 => MaybenotEventType::PaddingSent,
        5 => MaybenotEventType::TunnelSent,
        6 => MaybenotEventType::BlockingBegin,
        7 => MaybenotEventType::BlockingEnd,
        8 => MaybenotEventType::TimerBegin,
        _ => MaybenotEventType::TimerEnd,
    };
    // the numeric values are the header's contract
    assert!(ty as u32 == k as u32, "C20: event type discriminant");
    let e = convert_event(MaybenotEvent { event_type: ty, machine: id });
    let mid = MachineId::from_raw(id);
    let want = match k {
        0 => TriggerEvent::NormalRecv,
        1 => TriggerEvent::PaddingRecv,
        2 => TriggerEvent::TunnelRecv,
        3 => TriggerEvent::NormalSent,
        4 => TriggerEvent::PaddingSent { machine: mid },
        5 => TriggerEvent::TunnelSent,
        6 => TriggerEvent::BlockingBegin { machine: mid },
        7 => TriggerEvent::BlockingEnd,
        8 => TriggerEvent::TimerBegin { machine: mid },
        _ => TriggerEvent::TimerEnd { machine: mid },
    };
    assert!(e == want, "C20: converted event differs");
    kani::cover!(k == 9 && id == usize::MAX, "TimerEnd with huge id");
}

#[kani::proof]
fn f_null_paths() {
    // null instance / event / action / count pointers are reported, never dereferenced
    let ev = [MaybenotEvent { event_type: MaybenotEventType::NormalSent, machine: kani::any() }];
    let mut out: [MaybeUninit<MaybenotAction>; 1] = [MaybeUninit::uninit()];
    let mut n: usize = 77;
    let r = unsafe { maybenot_on_events(core::ptr::null_mut(), ev.as_ptr(), 1, out.as_mut_ptr(), &mut n) };
    assert!(matches!(r, MaybenotResult::NullPointer), "C20: null instance");
    assert!(n == 77, "C20: count written on error");
    assert!(unsafe { maybenot_num_machines(core::ptr::null_mut()) } == 0, "C20: num_machines(null)");
    let r = unsafe { maybenot_start(core::ptr::null(), kani::any(), kani::any(), core::ptr::null_mut()) };
    assert!(matches!(r, MaybenotResult::NullPointer), "C20: null out pointer in start");
    assert!(MaybenotResult::Ok as u32 == 0 && MaybenotResult::MachineStringNotUtf8 as u32 == 1
        && MaybenotResult::InvalidMachineString as u32 == 2 && MaybenotResult::StartFramework as u32 == 3
        && MaybenotResult::NullPointer as u32 == 4, "C20: error codes");
    kani::cover!(true, "reached end");
}

// ------------------------------------------------------------------------------------------
// maybenot_on_events through the real on_events / trigger_events: the machine step writes ANY
// well-formed action (maybenot::verif::transition_any_action); the output buffer has exactly
// num_machines slots between two canaries.
// ------------------------------------------------------------------------------------------
use maybenot::verif::{aa_calls, aa_duration, aa_last, aa_timeout, set_mode, MODE_ANY_ACTION};

fn fake_now() -> Instant {
    #[repr(C)]
    struct TS {
        secs: i64,
        nanos: u32,
    }
    let secs: i64 = kani::any();
    let nanos: u32 = kani::any();
    kani::assume(nanos < 1_000_000_000 && secs >= 0 && secs < (1i64 << 40));
    unsafe { core::mem::transmute::<TS, Instant>(TS { secs, nanos }) }
}
fn noop_machine() -> Machine {
    maybenot::verif::noop_machine()
}
fn is_canary(a: &MaybenotAction) -> bool {
    matches!(a, MaybenotAction::Cancel { machine: 0xDEAD, timer: MaybenotTimer::All })
}
fn kind_of(a: &MaybenotAction) -> u8 {
    match a {
        MaybenotAction::Cancel { .. } => 1,
        MaybenotAction::SendPadding { .. } => 2,
        MaybenotAction::BlockOutgoing { .. } => 3,
        MaybenotAction::UpdateTimer { .. } => 4,
    }
}

fn any_event_type(k: u8) -> MaybenotEventType {
    match k {
        0 => MaybenotEventType::NormalRecv,
        1 => MaybenotEventType::PaddingRecv,
        2 => MaybenotEventType::TunnelRecv,
        3 => MaybenotEventType::NormalSent,
        4 => MaybenotEventType::PaddingSent,
        5 => MaybenotEventType::TunnelSent,
        6 => MaybenotEventType::BlockingBegin,
        7 => MaybenotEventType::BlockingEnd,
        8 => MaybenotEventType::TimerBegin,
        _ => MaybenotEventType::TimerEnd,
    }
}

/// `nev` events (0 or 1) of ANY of the ten types with ANY machine id
fn on_events_body<const M: usize>(nev: usize, kind: u8, idcase: usize) {
    set_mode(MODE_ANY_ACTION);
    // the OS-seeded generator is never drawn from (the machine step is stubbed)
    let rng: Rng = unsafe { core::mem::zeroed() };
    let machines: Vec<Machine> = (0..M).map(|_| noop_machine()).collect();
    let framework = maybenot::verif::new_unchecked(machines, fake_now(), rng);
    let mut mf = MaybenotFramework { framework, events_buf: Vec::with_capacity(M) };
    // case split (see DESIGN.md rule 8): global event types with any id, or the three addressed
    // types with a concrete machine id / any id that names no machine (254)
    let k: u8 = kind;
    let id: usize = if idcase == 255 {
        kani::any()
    } else if idcase == 254 {
        let x: usize = kani::any();
        kani::assume(x >= M);
        x
    } else if idcase == 253 {
        // a concrete id that names no machine (keeps the event buffer's length concrete even if the
        // code under test were to filter events by id)
        M + 5
    } else {
        idcase
    };
    let ev = [MaybenotEvent { event_type: any_event_type(k), machine: id }];
    let canary = MaybenotAction::Cancel { machine: 0xDEAD, timer: MaybenotTimer::All };
    let mut out: [MaybeUninit<MaybenotAction>; 4] = [MaybeUninit::new(canary), MaybeUninit::new(canary), MaybeUninit::new(canary), MaybeUninit::new(canary)];
    // the caller's count variable holds a stale value from an earlier call
    let mut n: usize = 77;
    assert!(unsafe { maybenot_num_machines(&mut mf) } == M, "C20: maybenot_num_machines is the number of machines");
    let r = unsafe { maybenot_on_events(&mut mf, ev.as_ptr(), nev, out.as_mut_ptr().add(1), &mut n) };
    assert!(matches!(r, MaybenotResult::Ok), "C20: feeding events to a valid instance succeeds");
    // which machines the Rust framework steps for this event: global events (BlockingBegin included,
    // whatever id it carries) reach every machine, addressed events only an existing machine
    let addressed = k == 4 || k == 8 || k == 9;
    let expect_steps = if nev == 0 { 0 } else if addressed { if id < M { 1 } else { 0 } } else { M };
    assert!(aa_calls() == expect_steps, "C20: the events reach the framework exactly as the Rust API would deliver them (type and machine id unchanged, none dropped)");
    assert!(n <= M, "C20/C04: the count written never exceeds maybenot_num_machines (at most one action per machine)");
    let outs: [MaybenotAction; 4] = [unsafe { out[0].assume_init() }, unsafe { out[1].assume_init() }, unsafe { out[2].assume_init() }, unsafe { out[3].assume_init() }];
    assert!(is_canary(&outs[0]) && is_canary(&outs[M + 1]), "C20: nothing is written outside the num_machines output slots");
    // the actions, in machine order and field for field, are those the framework returned
    let mut k_out = 0;
    let mut mi = 0;
    while mi < M {
        let a = aa_last(mi);
        let stepped = nev == 1 && (if addressed { id == mi } else { true });
        if stepped && a.kind != 0 {
            assert!(k_out < n, "C20: the count written equals the number of actions the framework returned");
            let c = &outs[1 + k_out];
            let to: Duration = aa_timeout();
            let du: Duration = aa_duration();
            let ok = match c {
                MaybenotAction::Cancel { machine, timer } => a.kind == 1 && *machine == mi && *timer as u32 == a.timer as u32,
                MaybenotAction::SendPadding { machine, timeout, replace, bypass } => {
                    a.kind == 2 && *machine == mi && *replace == a.replace && *bypass == a.bypass
                        && (M > 1 || (timeout.secs == to.as_secs() && timeout.nanos == to.subsec_nanos()))
                }
                MaybenotAction::BlockOutgoing { machine, timeout, replace, bypass, duration } => {
                    a.kind == 3 && *machine == mi && *replace == a.replace && *bypass == a.bypass
                        && (M > 1 || (timeout.secs == to.as_secs() && timeout.nanos == to.subsec_nanos()
                            && duration.secs == du.as_secs() && duration.nanos == du.subsec_nanos()))
                }
                MaybenotAction::UpdateTimer { machine, duration, replace } => {
                    a.kind == 4 && *machine == mi && *replace == a.replace
                        && (M > 1 || (duration.secs == du.as_secs() && duration.nanos == du.subsec_nanos()))
                }
            };
            assert!(ok, "C20: the actions written are, in order and field for field, those the framework returns");
            k_out += 1;
        }
        mi += 1;
    }
    assert!(k_out == n, "C20/C04: the count written equals the number of actions the framework returned (also for an empty batch)");
    kani::cover!(n == M && M > 0, "every machine returned an action");
    kani::cover!(n == 0 && nev == 1, "no action returned for an event");
    core::mem::forget(mf);
}

macro_rules! on_events {
    ($name:ident, $m:expr, $nev:expr, $kind:expr, $id:expr) => {
        #[kani::proof]
        #[kani::unwind(5)]
        #[kani::stub(std::time::Instant::now, fake_now)]
        #[kani::stub(maybenot::framework::Framework::transition, maybenot::verif::transition_any_action)]
        fn $name() {
            on_events_body::<$m>($nev, $kind, $id);
        }
    };
}
// concrete event type per instance (a symbolic type makes the solver run out of memory)
on_events!(f_on_events_m1, 1, 1, 2, 255);
on_events!(f_on_events_m2, 2, 1, 2, 255);
on_events!(f_on_events_m1_bb, 1, 1, 6, 255);
on_events!(f_on_events_m1_bb_id0, 1, 1, 6, 0);
on_events!(f_on_events_m1_bb_idu, 1, 1, 6, 253);
on_events!(f_on_events_m1_ps_idu, 1, 1, 4, 253);
on_events!(f_on_events_m2_bb, 2, 1, 6, 255);
on_events!(f_on_events_m1_ps0, 1, 1, 4, 0);
on_events!(f_on_events_m1_psu, 1, 1, 4, 254);
on_events!(f_on_events_m1_te0, 1, 1, 9, 0);
on_events!(f_on_events_empty, 1, 0, 2, 255);
