//! Simulator step contracts (child module of maybenot-simulator's lib.rs, cfg(kani) only).
//! Whole simulated runs with machines are out of reach (DESIGN.md C14-C19); what is decided here
//! is the contract of each scheduler function from every small symbolic state, with the framework's
//! machine step replaced by "any well-formed action" (maybenot::verif::transition_any_action).
use super::*;
use crate::queue_event::{EventQueue, Queue};
use maybenot::verif::{aa_calls, aa_duration, aa_last, aa_timeout, set_mode, MODE_ANY_ACTION};
use std::collections::BinaryHeap;

#[kani::proof]
fn s_warm() {
    let x: u8 = kani::any();
    assert!(x as u16 <= 255);
}

pub(crate) fn any_instant() -> Instant {
    // std::time::Instant is (secs: i64-like, nanos < 1e9) on this target; any value in a window that
    // leaves room for a day of timeout/duration on both sides
    #[repr(C)]
    struct TS {
        secs: i64,
        nanos: u32,
    }
    let secs: i64 = kani::any();
    let nanos: u32 = kani::any();
    kani::assume(nanos < 1_000_000_000);
    kani::assume(secs >= (1 << 20) && secs < (1i64 << 40));
    unsafe { core::mem::transmute::<TS, Instant>(TS { secs, nanos }) }
}
pub(crate) fn any_duration_upto(max_us: u64) -> Duration {
    let us: u64 = kani::any();
    kani::assume(us <= max_us);
    Duration::from_micros(us)
}
pub(crate) fn empty_queue() -> SimQueue {
    let eq = || EventQueue { base: BinaryHeap::new(), blocking: BinaryHeap::new(), bypassable: BinaryHeap::new(), internal: BinaryHeap::new() };
    SimQueue { client: eq(), server: eq(), max_pps: None }
}
pub fn format_stub(_args: core::fmt::Arguments<'_>) -> String {
    String::new()
}
fn no_thread_rng() -> ThreadRng {
    panic!("C19: rand::thread_rng reached in a seeded, integration-free run")
}
const DAY_US: u64 = 86_400_000_000;

fn noop_machine() -> Machine {
    maybenot::verif::noop_machine()
}
fn rng() -> RngSource {
    // never drawn from (the machine step is stubbed); built without from_seed's byte loops
    RngSource::Xoshiro(unsafe { core::mem::transmute::<[u64; 4], Xoshiro256StarStar>([1, 2, 3, 4]) })
}
fn any_opt_instant() -> Option<Instant> {
    if kani::any() {
        Some(any_instant())
    } else {
        None
    }
}
fn any_sched(mi: usize) -> Option<ScheduledAction> {
    if kani::any() {
        return None;
    }
    let machine = MachineId::from_raw(mi);
    let timeout = any_duration_upto(DAY_US);
    let action = if kani::any() {
        TriggerAction::SendPadding { timeout, bypass: kani::any(), replace: kani::any(), machine }
    } else {
        TriggerAction::BlockOutgoing { timeout, duration: any_duration_upto(DAY_US), bypass: kani::any(), replace: kani::any(), machine }
    };
    Some(ScheduledAction { action, time: any_instant() })
}
fn state_with<'a>(machines: &'a [Machine], t0: Instant) -> SimState<&'a [Machine], RngSource> {
    let n = machines.len();
    SimState {
        framework: maybenot::verif::new_unchecked(machines, t0, rng()),
        scheduled_action: vec![None; n],
        scheduled_internal_timer: vec![None; n],
        blocking_until: None,
        blocking_bypassable: false,
        integration: None,
    }
}

// ------------------------------------------------------------------------------------------
// C17 / C18: what the simulator does with the actions the framework returns
// ------------------------------------------------------------------------------------------
/// `trigger_update` for one event on a side with one machine: the machine step returns ANY
/// well-formed action; pending action timer and internal timer are arbitrary.
#[kani::proof]
#[kani::unwind(4)]
#[kani::stub(alloc::fmt::format, format_stub)]
#[kani::stub(rand::thread_rng, no_thread_rng)]
#[kani::stub(maybenot::framework::Framework::transition, maybenot::verif::transition_any_action)]
fn s_trigger_update() {
    set_mode(MODE_ANY_ACTION);
    let t0 = any_instant();
    let machines = [noop_machine()];
    let mut st = state_with(&machines[..], t0);
    st.scheduled_action[0] = any_sched(0);
    st.scheduled_internal_timer[0] = any_opt_instant();
    let before_action = st.scheduled_action[0].clone();
    let before_timer = st.scheduled_internal_timer[0];
    let mut sq = empty_queue();
    let now = any_instant();
    let is_client: bool = kani::any();
    // a global event: every machine takes one step
    let next = SimEvent { event: TriggerEvent::TunnelRecv, time: now, integration_delay: Duration::ZERO, client: is_client,
        contains_padding: false, bypass: false, replace: false, debug_note: None };
    trigger_update(&mut st, &next, &now, &mut sq, is_client);
    assert!(aa_calls() == 1, "C17: one event makes each machine take exactly one step");
    let a = aa_last(0);
    let after_action = &st.scheduled_action[0];
    let after_timer = st.scheduled_internal_timer[0];
    let queued = sq.len();
    // the very Duration values the framework handed out (no second micros -> Duration conversion)
    let to: Duration = aa_timeout();
    let du: Duration = aa_duration();
    match a.kind {
        0 => {
            assert!(*after_action == before_action && after_timer == before_timer && queued == 0, "C17: without an action nothing changes");
        }
        1 => {
            // cancel: Action / Internal / All
            let (ca, ci) = (a.timer == 0 || a.timer == 2, a.timer == 1 || a.timer == 2);
            assert!(if ca { after_action.is_none() } else { *after_action == before_action },
                "C17: a Cancel of the action timer supersedes the pending action, which then never fires; other cancels leave it alone");
            assert!(if ci { after_timer.is_none() } else { after_timer == before_timer },
                "C18: a Cancel of the internal timer clears it (no TimerEnd for a cancelled timer); other cancels leave it alone");
            assert!(queued == 0, "C18: a cancel reports nothing");
        }
        2 | 3 => {
            assert!(after_timer == before_timer && queued == 0, "C18: padding and blocking actions do not touch the internal timer");
            match after_action {
                Some(sa) => {
                    assert!(sa.time == now + to, "C17: the action fires exactly at its issue time plus its timeout");
                    let same = match &sa.action {
                        TriggerAction::SendPadding { timeout, bypass, replace, machine } => {
                            a.kind == 2 && *timeout == to && *bypass == a.bypass && *replace == a.replace && machine.into_raw() == 0
                        }
                        TriggerAction::BlockOutgoing { timeout, duration, bypass, replace, machine } => {
                            a.kind == 3 && *timeout == to && *duration == du && *bypass == a.bypass && *replace == a.replace && machine.into_raw() == 0
                        }
                        _ => false,
                    };
                    assert!(same, "C17: the pending action is the most recent action the framework returned for that machine (a newer action supersedes the old one)");
                }
                None => assert!(false, "C17: a returned SendPadding/BlockOutgoing must be scheduled"),
            }
        }
        _ => {
            assert!(*after_action == before_action, "C17: an UpdateTimer action does not touch the action timer");
            // C18: the timer is set or changed iff replace, or no timer running, or a later expiry than the one running
            let expiry = now + du;
            let sets = a.replace || before_timer.is_none() || expiry > before_timer.unwrap();
            if sets {
                assert!(after_timer == Some(expiry), "C18: the internal timer expires at the instant of the UpdateTimer action plus its duration");
                assert!(queued == 1, "C18: whenever an UpdateTimer sets or changes the timer, exactly one TimerBegin is reported");
                let q = if is_client { &sq.client } else { &sq.server };
                let e = q.internal.peek();
                assert!(e.is_some(), "C18: TimerBegin is queued on the machine's own side");
                let e = e.unwrap();
                assert!(e.event == TriggerEvent::TimerBegin { machine: MachineId::from_raw(0) } && e.time == now && e.client == is_client,
                    "C18: TimerBegin is reported for that machine at that same instant");
            } else {
                assert!(after_timer == before_timer && queued == 0, "C18: an UpdateTimer that does not change the timer reports nothing and keeps the running expiry");
            }
        }
    }
    kani::cover!(a.kind == 4 && before_timer.is_none() && a.duration_us == 0, "zero-duration timer with no timer running");
    kani::cover!(a.kind == 3 && before_action.is_some(), "blocking action supersedes a pending action");
    core::mem::forget(sq);
    core::mem::forget(st);
    core::mem::forget(machines);
}

/// `do_scheduled_action`: the due action fires, exactly once, for its machine, at its due time.
#[kani::proof]
#[kani::unwind(4)]
#[kani::stub(alloc::fmt::format, format_stub)]
#[kani::stub(rand::thread_rng, no_thread_rng)]
fn s_do_scheduled_action() {
    let t0 = any_instant();
    let mc = [noop_machine(), noop_machine()];
    let ms = [noop_machine()];
    let mut client = state_with(&mc[..], t0);
    let mut server = state_with(&ms[..], t0);
    client.scheduled_action[0] = any_sched(0);
    client.scheduled_action[1] = any_sched(1);
    server.scheduled_action[0] = any_sched(0);
    client.blocking_until = any_opt_instant();
    client.blocking_bypassable = kani::any();
    server.blocking_until = any_opt_instant();
    server.blocking_bypassable = kani::any();
    let target = any_instant();
    let due = |s: &Option<ScheduledAction>| s.as_ref().map(|x| x.time == target).unwrap_or(false);
    let (d0, d1, d2) = (due(&client.scheduled_action[0]), due(&client.scheduled_action[1]), due(&server.scheduled_action[0]));
    // pick_next only calls this with the due time of some pending action
    kani::assume(d0 || d1 || d2);
    let pre = [client.scheduled_action[0].clone(), client.scheduled_action[1].clone(), server.scheduled_action[0].clone()];
    let (pre_cb, pre_cbb, pre_sb, pre_sbb) = (client.blocking_until, client.blocking_bypassable, server.blocking_until, server.blocking_bypassable);

    let ev = do_scheduled_action(&mut client, &mut server, target);

    // exactly the first due slot (client machines first) fired and was cleared; the others are untouched
    let fired = if d0 { 0 } else if d1 { 1 } else { 2 };
    let post = [&client.scheduled_action[0], &client.scheduled_action[1], &server.scheduled_action[0]];
    let mut i = 0;
    while i < 3 {
        if i == fired {
            assert!(post[i].is_none(), "C17: an action that fired is cleared so that it happens once");
        } else {
            assert!(*post[i] == pre[i], "C17: actions of other machines stay pending");
        }
        i += 1;
    }
    let sa = pre[fired].as_ref().unwrap();
    let is_client = fired < 2;
    let mach = if fired == 1 { 1 } else { 0 };
    assert!(ev.is_some(), "C17: a due action is reported");
    let ev = ev.unwrap();
    assert!(ev.client == is_client && ev.integration_delay == Duration::ZERO, "C17: the report is for the side that owns the action");
    match &sa.action {
        TriggerAction::SendPadding { bypass, replace, .. } => {
            assert!(ev.event == TriggerEvent::PaddingSent { machine: MachineId::from_raw(mach) } && ev.time == target,
                "C17: PaddingSent is reported for the machine whose action fired, exactly at the due time");
            assert!(ev.bypass == *bypass && ev.replace == *replace && ev.contains_padding, "C16: the padding carries the bypass and replace flags of its action");
            assert!(client.blocking_until == pre_cb && client.blocking_bypassable == pre_cbb && server.blocking_until == pre_sb
                && server.blocking_bypassable == pre_sbb, "C16: sending padding does not change blocking");
        }
        TriggerAction::BlockOutgoing { duration, bypass, replace, .. } => {
            assert!(ev.event == TriggerEvent::BlockingBegin { machine: MachineId::from_raw(mach) } && ev.time == target,
                "C16: blocking begins when the action's timeout expires and is reported with BlockingBegin for that machine at that time");
            let (pre_until, pre_byp, until, byp, o_pre, o_pre_b, o_until, o_byp) = if is_client {
                (pre_cb, pre_cbb, client.blocking_until, client.blocking_bypassable, pre_sb, pre_sbb, server.blocking_until, server.blocking_bypassable)
            } else {
                (pre_sb, pre_sbb, server.blocking_until, server.blocking_bypassable, pre_cb, pre_cbb, client.blocking_until, client.blocking_bypassable)
            };
            assert!(o_until == o_pre && o_byp == o_pre_b, "C16: blocking on one side never changes the other side");
            let new_expiry = target + *duration;
            // replace: the new duration replaces the current expiry; otherwise the longer of the two
            let expect_until = match pre_until {
                None => new_expiry,
                Some(u) => if *replace || new_expiry > u { new_expiry } else { u },
            };
            if pre_until.is_none() && !*replace && *duration == Duration::ZERO {
                assert!(until == Some(expect_until),
                    "C16: a zero-duration block with no blocking active still begins (and ends at its expiry)");
            } else {
                assert!(until == Some(expect_until),
                    "C16: blocking lasts the action's duration: it replaces the current expiry if the action says replace, otherwise the longer of the two applies");
            }
            // bypass is allowed only while EVERY action that started or updated the current blocking allowed it
            let expect_byp = match pre_until {
                None => *bypass,
                Some(u) => {
                    if *replace {
                        *bypass
                    } else if new_expiry > u {
                        pre_byp && *bypass
                    } else {
                        pre_byp
                    }
                }
            };
            let extends = matches!(pre_until, Some(u) if !*replace && new_expiry > u);
            if until != Some(expect_until) {
                // zero-duration case above: nothing was started
            } else if extends && !pre_byp && *bypass {
                assert!(byp == expect_byp,
                    "C16: extending blocking that does not allow bypass with a bypassable action must not make it bypassable");
            } else {
                assert!(byp == expect_byp,
                    "C16: blocking allows bypass only while every action that started or updated it allowed bypass");
            }
            assert!(ev.bypass == byp, "C16: BlockingBegin reports whether the blocking now in force allows bypass");
        }
        _ => assert!(false, "C17: only padding and blocking actions are ever pending"),
    }
    kani::cover!(fired == 2, "server action fired");
    kani::cover!(matches!(sa.action, TriggerAction::BlockOutgoing { .. }) && fired == 1 && pre_cb.is_some(), "blocking extended or kept on the client");
    core::mem::forget(client);
    core::mem::forget(server);
    core::mem::forget(mc);
    core::mem::forget(ms);
}

/// `do_internal_timer`: TimerEnd exactly once, exactly at the expiry, for the machine whose timer expired.
#[kani::proof]
#[kani::unwind(4)]
#[kani::stub(alloc::fmt::format, format_stub)]
#[kani::stub(rand::thread_rng, no_thread_rng)]
fn s_do_internal_timer() {
    let t0 = any_instant();
    let mc = [noop_machine(), noop_machine()];
    let ms = [noop_machine()];
    let mut client = state_with(&mc[..], t0);
    let mut server = state_with(&ms[..], t0);
    client.scheduled_internal_timer[0] = any_opt_instant();
    client.scheduled_internal_timer[1] = any_opt_instant();
    server.scheduled_internal_timer[0] = any_opt_instant();
    let target = any_instant();
    let pre = [client.scheduled_internal_timer[0], client.scheduled_internal_timer[1], server.scheduled_internal_timer[0]];
    let (d0, d1, d2) = (pre[0] == Some(target), pre[1] == Some(target), pre[2] == Some(target));
    kani::assume(d0 || d1 || d2);
    let ev = do_internal_timer(&mut client, &mut server, target);
    let fired = if d0 { 0 } else if d1 { 1 } else { 2 };
    let post = [client.scheduled_internal_timer[0], client.scheduled_internal_timer[1], server.scheduled_internal_timer[0]];
    let mut i = 0;
    while i < 3 {
        if i == fired {
            assert!(post[i].is_none(), "C18: an expired timer is cleared so that TimerEnd is reported exactly once");
        } else {
            assert!(post[i] == pre[i], "C18: timers of other machines keep running");
        }
        i += 1;
    }
    assert!(ev.is_some(), "C18: an expired timer is reported");
    let ev = ev.unwrap();
    let mach = if fired == 1 { 1 } else { 0 };
    assert!(ev.event == TriggerEvent::TimerEnd { machine: MachineId::from_raw(mach) } && ev.time == target && ev.client == (fired < 2)
        && !ev.contains_padding && !ev.bypass && !ev.replace,
        "C18: TimerEnd is reported exactly at the timer's expiry for the machine (and side) whose timer expired");
    kani::cover!(fired == 2, "server timer expired");
    core::mem::forget(client);
    core::mem::forget(server);
    core::mem::forget(mc);
    core::mem::forget(ms);
}

/// "when is the next action due": the minimum over the pending actions due at or after now
#[kani::proof]
#[kani::unwind(4)]
fn s_peek_action() {
    let now = any_instant();
    let mk = |mi: usize| -> Option<ScheduledAction> {
        if kani::any() {
            None
        } else {
            Some(ScheduledAction {
                action: TriggerAction::SendPadding { timeout: Duration::ZERO, bypass: false, replace: false, machine: MachineId::from_raw(mi) },
                time: any_instant(),
            })
        }
    };
    let sc = [mk(0), mk(1)];
    let ss = [mk(0)];
    let d = peek_scheduled_action(&sc, &ss, now);
    let all = [&sc[0], &sc[1], &ss[0]];
    let mut any_due = false;
    let mut hit = false;
    let mut i = 0;
    while i < 3 {
        if let Some(a) = all[i] {
            if a.time >= now {
                any_due = true;
                let w = a.time.duration_since(now);
                assert!(d <= w, "C17: an action that is not superseded fires when due, before simulated time moves past it");
                hit |= d == w;
            }
        }
        i += 1;
    }
    if any_due {
        assert!(hit, "C17: the next action time is the due time of a pending action");
    } else {
        assert!(d == Duration::MAX, "C17: without a pending action nothing is due");
    }
    kani::cover!(any_due && d == Duration::ZERO, "an action is due right now");
}

/// quick variants with one slot per side
#[kani::proof]
#[kani::unwind(3)]
fn s_peek_internal_q() {
    let now = any_instant();
    let tc = [any_opt_instant()];
    let ts = [any_opt_instant()];
    let d = peek_scheduled_internal_timer(&tc, &ts, now);
    let allt = [tc[0], ts[0]];
    let mut any_due = false;
    let mut hit = false;
    let mut i = 0;
    while i < 2 {
        if let Some(t) = allt[i] {
            if t >= now {
                any_due = true;
                let w = t.duration_since(now);
                assert!(d <= w, "C18: TimerEnd is never reported after simulated time moved past the expiry");
                hit |= d == w;
            }
        }
        i += 1;
    }
    if any_due {
        assert!(hit, "C18: the next timer expiry is the expiry of a running timer");
    } else {
        assert!(d == Duration::MAX, "C18: without a running timer nothing expires");
    }
    kani::cover!(any_due && d == Duration::ZERO, "a timer expires right now");
}
/// two pending actions on ONE side (the earliest must win whatever the machine order)
#[kani::proof]
#[kani::unwind(3)]
fn s_peek_action_q2() {
    let now = any_instant();
    let mk = |mi: usize| -> Option<ScheduledAction> {
        if kani::any() {
            None
        } else {
            Some(ScheduledAction {
                action: TriggerAction::SendPadding { timeout: Duration::ZERO, bypass: false, replace: false, machine: MachineId::from_raw(mi) },
                time: any_instant(),
            })
        }
    };
    let sc = [mk(0), mk(1)];
    let ss: [Option<ScheduledAction>; 0] = [];
    let d = peek_scheduled_action(&sc, &ss, now);
    let mut any_due = false;
    let mut hit = false;
    let mut i = 0;
    while i < 2 {
        if let Some(a) = &sc[i] {
            if a.time >= now {
                any_due = true;
                let w = a.time.duration_since(now);
                assert!(d <= w, "C17: an action that is not superseded fires when due, before simulated time moves past it (whichever machine it belongs to)");
                hit |= d == w;
            }
        }
        i += 1;
    }
    if any_due {
        assert!(hit, "C17: the next action time is the due time of a pending action");
    } else {
        assert!(d == Duration::MAX, "C17: without a pending action nothing is due");
    }
    kani::cover!(any_due && sc[0].is_some() && sc[1].is_some() && d > Duration::ZERO, "two pending actions, the earlier one later than now");
}
#[kani::proof]
#[kani::unwind(3)]
fn s_peek_action_q() {
    let now = any_instant();
    let mk = |mi: usize| -> Option<ScheduledAction> {
        if kani::any() {
            None
        } else {
            Some(ScheduledAction {
                action: TriggerAction::SendPadding { timeout: Duration::ZERO, bypass: false, replace: false, machine: MachineId::from_raw(mi) },
                time: any_instant(),
            })
        }
    };
    let sc = [mk(0)];
    let ss = [mk(0)];
    let d = peek_scheduled_action(&sc, &ss, now);
    let all = [&sc[0], &ss[0]];
    let mut any_due = false;
    let mut hit = false;
    let mut i = 0;
    while i < 2 {
        if let Some(a) = all[i] {
            if a.time >= now {
                any_due = true;
                let w = a.time.duration_since(now);
                assert!(d <= w, "C17: an action that is not superseded fires when due, before simulated time moves past it");
                hit |= d == w;
            }
        }
        i += 1;
    }
    if any_due {
        assert!(hit, "C17: the next action time is the due time of a pending action");
    } else {
        assert!(d == Duration::MAX, "C17: without a pending action nothing is due");
    }
    kani::cover!(any_due && d == Duration::ZERO, "an action is due right now");
}

#[kani::proof]
#[kani::unwind(4)]
fn s_peek_internal() {
    let now = any_instant();
    let tc = [any_opt_instant(), any_opt_instant()];
    let ts = [any_opt_instant()];
    let d = peek_scheduled_internal_timer(&tc, &ts, now);
    let allt = [tc[0], tc[1], ts[0]];
    let mut any_due = false;
    let mut hit = false;
    let mut i = 0;
    while i < 3 {
        if let Some(t) = allt[i] {
            if t >= now {
                any_due = true;
                let w = t.duration_since(now);
                assert!(d <= w, "C18: TimerEnd is never reported after simulated time moved past the expiry");
                hit |= d == w;
            }
        }
        i += 1;
    }
    if any_due {
        assert!(hit, "C18: the next timer expiry is the expiry of a running timer");
    } else {
        assert!(d == Duration::MAX, "C18: without a running timer nothing expires");
    }
    kani::cover!(any_due && d > Duration::ZERO, "a timer expires later");
}

#[kani::proof]
#[kani::unwind(4)]
fn s_peek_blocked() {
    let now = any_instant();
    let bc = any_opt_instant();
    let bs = any_opt_instant();
    if let Some(c) = bc {
        kani::assume(c >= now);
    }
    if let Some(s) = bs {
        kani::assume(s >= now);
    }
    let (d, is_c) = peek_blocked_exp(bc, bs, now);
    match (bc, bs) {
        (None, None) => assert!(d == Duration::MAX, "C16: without blocking there is no expiry"),
        (Some(c), None) => assert!(is_c && d == c.duration_since(now), "C16: blocking ends exactly at its expiry"),
        (None, Some(s)) => assert!(!is_c && d == s.duration_since(now), "C16: blocking ends exactly at its expiry"),
        (Some(c), Some(s)) => assert!(d == c.min(s).duration_since(now) && (if is_c { c <= s } else { s <= c }),
            "C16: the earlier of the two sides' blocking ends first, exactly at its expiry"),
    }
    kani::cover!(bc.is_some() && bs.is_some() && !is_c, "server blocking ends first");
}

// ------------------------------------------------------------------------------------------
// C14 / C15: the network stack, one event at a time (no machines, no integration delays)
// ------------------------------------------------------------------------------------------
fn any_side_event(event: TriggerEvent, time: Instant) -> SimEvent {
    SimEvent { event, time, integration_delay: Duration::ZERO, client: kani::any(), contains_padding: false, bypass: false, replace: false, debug_note: None }
}
fn only_event<'a>(q: &'a EventQueue) -> (&'a SimEvent, u8) {
    // the single queued event of a side and the internal queue it sits in (0 base, 1 blocking, 2 bypassable, 3 internal)
    if let Some(e) = q.base.peek() {
        (e, 0)
    } else if let Some(e) = q.blocking.peek() {
        (e, 1)
    } else if let Some(e) = q.bypassable.peek() {
        (e, 2)
    } else {
        (q.internal.peek().unwrap(), 3)
    }
}

fn stack_send_recv(kind: u8) {
    let t0 = any_instant();
    let none: &[Machine] = &[];
    let side = state_with(none, t0);
    let mut other = state_with(none, t0);
    let delay = any_duration_upto(10_000_000);
    // what NetworkBottleneck::new(Network::new(delay, None), 1 s, None) builds (no rate limit)
    let mut network = crate::network::verif_kani::small_bottleneck(Network::new(delay, None), Duration::from_secs(1), usize::MAX, Duration::ZERO);
    let mut sq = empty_queue();
    let now = any_instant();
    let padding: bool = kani::any();
    let mut next = any_side_event(match kind { 0 => TriggerEvent::NormalSent, 1 => TriggerEvent::TunnelSent, _ => TriggerEvent::TunnelRecv }, now);
    if kind != 0 {
        next.contains_padding = padding;
        next.bypass = kani::any();
        next.replace = kani::any();
    }
    let activity = sim_network_stack(&next, &mut sq, &side, &mut other, &mut network, &now);
    assert!(sq.len() == 1, "C15: one packet event produces exactly one follow-up event: packets are neither created, duplicated nor lost");
    let (mine, theirs) = if next.client { (&sq.client, &sq.server) } else { (&sq.server, &sq.client) };
    match kind {
        0 => {
            assert!(!activity && mine.len() == 1, "C14: a normal packet sent stays on its side until it enters the tunnel");
            let (e, q) = only_event(mine);
            assert!(e.event == TriggerEvent::TunnelSent && e.time == now && e.client == next.client && !e.contains_padding && !e.bypass && !e.replace && q == 1,
                "C14: a normal packet enters the tunnel at exactly the time it was sent, as a normal (non-padding, blockable) packet");
        }
        1 => {
            assert!(activity && theirs.len() == 1, "C15: every tunnel-sent packet is received by the other side exactly once");
            let (e, q) = only_event(theirs);
            assert!(e.event == TriggerEvent::TunnelRecv && e.client != next.client && q == 3, "C15: a tunnel-sent packet becomes a tunnel-received packet on the other side");
            assert!(e.contains_padding == padding, "C15: a tunnel-received packet is of the same kind (normal or padding) as the packet sent");
            assert!(e.time == now + delay, "C14: the packet is received exactly one network delay after it was sent (C15: at least one)");
        }
        _ => {
            assert!(activity && mine.len() == 1, "C15: a tunnel-received packet is delivered on the side that received it");
            let (e, q) = only_event(mine);
            let want = if padding { TriggerEvent::PaddingRecv } else { TriggerEvent::NormalRecv };
            assert!(e.event == want && e.time == now && e.client == next.client && e.contains_padding == padding && q == 3,
                "C15: a received tunnel packet is delivered as a received packet of the same kind at the same time");
        }
    }
    kani::cover!(padding == (kind != 0) && delay == Duration::ZERO, "zero-delay network (padding where the event can carry it)");
    core::mem::forget(sq);
    core::mem::forget(side);
    core::mem::forget(other);
    core::mem::forget(network);
}

macro_rules! stack_sr {
    ($name:ident, $kind:expr) => {
        #[kani::proof]
        #[kani::unwind(4)]
        #[kani::stub(alloc::fmt::format, format_stub)]
        #[kani::stub(rand::thread_rng, no_thread_rng)]
        #[kani::stub(crate::network::NetworkBottleneck::sample, crate::network::verif_kani::sample_unlimited)]
        fn $name() {
            stack_send_recv($kind);
        }
    };
}
stack_sr!(s_stack_normal_sent, 0);
stack_sr!(s_stack_tunnel_sent, 1);
stack_sr!(s_stack_tunnel_recv, 2);

/// PaddingSent: either one padding TunnelSent is queued, or (replace) an already queued normal
/// packet takes its place: the normal packet is re-labelled, never duplicated, never turned into padding.
fn stack_padding_sent(queued: bool, bypass_case: u8) {
    let t0 = any_instant();
    let none: &[Machine] = &[];
    let mut side = state_with(none, t0);
    let mut other = state_with(none, t0);
    side.blocking_until = any_opt_instant();
    side.blocking_bypassable = kani::any();
    let mut network = crate::network::verif_kani::small_bottleneck(Network::new(Duration::from_micros(1000), None), Duration::from_secs(1), usize::MAX, Duration::ZERO);
    let mut sq = empty_queue();
    let now = any_instant();
    let is_client: bool = kani::any();
    // possibly one normal packet already waiting to enter the tunnel on this side
    let qtime = any_instant();
    kani::assume(qtime <= now);
    // the waiting normal packet may itself have been allowed to bypass by an earlier replaced padding
    let q_bypass: bool = if bypass_case == 1 { kani::any() } else { false };
    if queued {
        sq.push_sim(SimEvent { event: TriggerEvent::TunnelSent, time: qtime, integration_delay: Duration::ZERO, client: is_client,
            contains_padding: false, bypass: q_bypass, replace: false, debug_note: None });
    }
    let bypass: bool = if bypass_case == 2 { kani::any() } else { bypass_case == 1 };
    let replace: bool = kani::any();
    let next = SimEvent { event: TriggerEvent::PaddingSent { machine: MachineId::from_raw(0) }, time: now, integration_delay: Duration::ZERO,
        client: is_client, contains_padding: true, bypass, replace, debug_note: None };
    let activity = sim_network_stack(&next, &mut sq, &side, &mut other, &mut network, &now);
    assert!(!activity, "C15: sending padding into the local queue is not network activity");
    let mine = if is_client { &sq.client } else { &sq.server };
    let theirs = if is_client { &sq.server } else { &sq.client };
    assert!(theirs.len() == 0 && mine.base.len() == 0 && mine.internal.len() == 0, "C15: padding sent on one side queues nothing but tunnel packets on that side");
    // the waiting packet can take the padding's place only if it is itself held back by the blocking rules
    let replaced = replace && queued && (!q_bypass || !side.blocking_bypassable);
    if replaced {
        assert!(mine.len() == 1, "C15: a replaced padding adds no packet: the queued normal packet is sent in its place (never duplicated, never dropped)");
        let e = if mine.blocking.len() == 1 { mine.blocking.peek().unwrap() } else { mine.bypassable.peek().unwrap() };
        assert!(e.event == TriggerEvent::TunnelSent && e.time == qtime && !e.contains_padding && e.client == is_client, "C15: the queued normal packet keeps its kind, side and time");
        assert!(e.bypass == (bypass || q_bypass), "C16: the queued normal packet may bypass blocking only when a padding it replaced claimed bypass");
    } else {
        assert!(mine.len() == 1 + queued as usize, "C15: padding that replaces nothing is queued as exactly one packet");
        let e = if bypass { mine.bypassable.iter().find(|e| e.contains_padding) } else { mine.blocking.iter().find(|e| e.contains_padding) };
        assert!(e.is_some(), "C16: only padding whose action has the bypass flag is queued as bypassable");
        let e = e.unwrap();
        assert!(e.event == TriggerEvent::TunnelSent && e.time == now && e.contains_padding && e.bypass == bypass && e.replace == replace && e.client == is_client,
            "C15: queued padding stays padding and carries its action's flags");
        if queued {
            let n = mine.blocking.iter().chain(mine.bypassable.iter()).find(|e| !e.contains_padding);
            assert!(n.is_some() && n.unwrap().time == qtime && n.unwrap().bypass == q_bypass, "C15: the queued normal packet is untouched by padding that does not replace it");
        }
    }
    kani::cover!(replace && (bypass || bypass_case == 0), "padding with the replace flag (and bypass where the instance allows it)");
    core::mem::forget(sq);
    core::mem::forget(side);
    core::mem::forget(other);
    core::mem::forget(network);
}
#[kani::proof]
#[kani::unwind(4)]
#[kani::stub(alloc::fmt::format, format_stub)]
#[kani::stub(rand::thread_rng, no_thread_rng)]
fn s_stack_padding_sent_empty() {
    stack_padding_sent(false, 2);
}
#[kani::proof]
#[kani::unwind(4)]
#[kani::stub(alloc::fmt::format, format_stub)]
#[kani::stub(rand::thread_rng, no_thread_rng)]
fn s_stack_padding_sent_queued() {
    stack_padding_sent(true, 0);
}
#[kani::proof]
#[kani::unwind(4)]
#[kani::stub(alloc::fmt::format, format_stub)]
#[kani::stub(rand::thread_rng, no_thread_rng)]
fn s_stack_padding_sent_queued_bypass() {
    stack_padding_sent(true, 1);
}

// ------------------------------------------------------------------------------------------
// C19: totality of the bottleneck model
// ------------------------------------------------------------------------------------------
#[kani::proof]
#[kani::unwind(3)]
fn s_bottleneck_new() {
    let pps: usize = kani::any();
    kani::assume(pps >= 1);
    let net_pps: Option<usize> = if kani::any() { Some(pps) } else { None };
    let qpps: usize = kani::any();
    kani::assume(qpps >= 1);
    let queue_pps: Option<usize> = if kani::any() { Some(qpps) } else { None };
    let network = NetworkBottleneck::new(Network::new(any_duration_upto(10_000_000), net_pps), Duration::from_secs(1), queue_pps);
    assert!(network.client_aggregate_base_delay == Duration::ZERO && network.server_aggregate_base_delay == Duration::ZERO,
        "C19: a fresh network model starts without aggregate delay");
    kani::cover!(net_pps.is_some() && pps > u32::MAX as usize, "packets-per-second limit beyond 32 bits");
    core::mem::forget(network);
}

/// pick_next with nothing but two queued packets (one per side): earliest first, client first on
/// ties, exactly one event consumed, time never moves backwards.
#[kani::proof]
#[kani::unwind(4)]
#[kani::stub(alloc::fmt::format, format_stub)]
#[kani::stub(rand::thread_rng, no_thread_rng)]
fn s_pick_next_two() {
    let t0 = any_instant();
    let none: &[Machine] = &[];
    let mut client = state_with(none, t0);
    let mut server = state_with(none, t0);
    let mut network = NetworkBottleneck::new(Network::new(any_duration_upto(10_000_000), None), Duration::from_secs(1), None);
    let mut sq = empty_queue();
    let d1 = any_duration_upto(1_000_000_000);
    let d2 = any_duration_upto(1_000_000_000);
    sq.push(TriggerEvent::NormalSent, true, false, t0 + d1, Duration::ZERO);
    sq.push(TriggerEvent::NormalSent, false, false, t0 + d2, Duration::ZERO);
    let next = pick_next(&mut sq, &mut client, &mut server, &mut network, t0);
    assert!(next.is_some(), "C19: with queued packets there is a next event");
    let next = next.unwrap();
    assert!(next.time >= t0, "C19: simulated time never moves backwards");
    if d1 <= d2 {
        assert!(next.client && next.time == t0 + d1, "C14: packets are processed in time order (client first on identical timestamps), never shifted in time");
    } else {
        assert!(!next.client && next.time == t0 + d2, "C14: packets are processed in time order, never shifted in time");
    }
    assert!(next.event == TriggerEvent::NormalSent && sq.len() == 1, "C15: picking the next event consumes exactly that event");
    kani::cover!(d1 == d2, "identical timestamps");
    core::mem::forget(sq);
    core::mem::forget(client);
    core::mem::forget(server);
    core::mem::forget(network);
    core::mem::forget(next);
}

/// C16 at the scheduler: one side is blocked until `u`, one packet waits to enter the tunnel on
/// that side. Whatever pick_next returns first, the packet never leaves before the blocking ends
/// unless the blocking OF THAT SIDE allows bypass AND the packet may bypass (the other side's flag,
/// possibly left over from an earlier block there, is arbitrary); blocking ends with exactly one
/// BlockingEnd at its expiry.
fn pick_next_blocked(is_client: bool, only_case: u64) {
    // instants are concrete (three orderings of "packet time" vs "blocking expiry" in a loop whose
    // induction variable is concrete, so the time arithmetic folds); every flag is symbolic
    #[repr(C)]
    struct TS {
        secs: i64,
        nanos: u32,
    }
    let t0 = unsafe { core::mem::transmute::<TS, Instant>(TS { secs: 1 << 21, nanos: 0 }) };
    let until = t0 + Duration::from_secs(5);
    let mut seen_bypass = false;
    let mut seen_held = false;
    let mut case = only_case;
    while case <= only_case {
        // packet queued before, exactly at, or after the expiry of the blocking
        // case 3: packet before the expiry AND an action of a machine on that side due exactly at the expiry
        let pkt_time = t0 + Duration::from_secs(if case == 3 { 2 } else { 2 + 3 * case });
        let one = [noop_machine()];
        let none: &[Machine] = if case == 3 { &one[..] } else { &[] };
        let mut client = state_with(none, t0);
        let mut server = state_with(none, t0);
        if case == 3 {
            let action = TriggerAction::BlockOutgoing { timeout: Duration::from_secs(5), duration: Duration::from_secs(10), bypass: kani::any(),
                replace: kani::any(), machine: MachineId::from_raw(0) };
            let sa = Some(ScheduledAction { action, time: until });
            if is_client {
                client.scheduled_action[0] = sa;
            } else {
                server.scheduled_action[0] = sa;
            }
        }
        let mut network = crate::network::verif_kani::small_bottleneck(Network::new(Duration::from_micros(1000), None), Duration::from_secs(1), usize::MAX, Duration::ZERO);
        let mut sq = empty_queue();
        client.blocking_bypassable = kani::any();
        server.blocking_bypassable = kani::any();
        if is_client {
            client.blocking_until = Some(until);
        } else {
            server.blocking_until = Some(until);
        }
        let bypassable = if is_client { client.blocking_bypassable } else { server.blocking_bypassable };
        let (pkt_bypass, padding): (bool, bool) = (kani::any(), kani::any());
        sq.push_sim(SimEvent { event: TriggerEvent::TunnelSent, time: pkt_time, integration_delay: Duration::ZERO, client: is_client,
            contains_padding: padding, bypass: pkt_bypass, replace: false, debug_note: None });
        let next = pick_next(&mut sq, &mut client, &mut server, &mut network, t0);
        assert!(next.is_some(), "C19: with a queued packet there is a next event");
        let next = next.unwrap();
        assert!(next.time >= t0 && next.client == is_client, "C19: simulated time never moves backwards");
        let side_until = if is_client { client.blocking_until } else { server.blocking_until };
        if next.event == TriggerEvent::TunnelSent {
            let may_bypass = bypassable && pkt_bypass;
            assert!(may_bypass || next.time >= until, "C16: nothing leaves a blocked side before the blocking ends unless that side's blocking allows bypass and the packet may bypass");
            assert!(may_bypass || side_until.is_none() || pkt_time >= until,
                "C16: a held-back packet leaves only after the end of the blocking was reported by BlockingEnd at the expiry (also when an action is due at that same instant)");
            assert!(next.time >= pkt_time && (next.time == pkt_time || next.time == until), "C15: a packet leaves at its own time or when the blocking that held it ends");
            assert!(next.contains_padding == padding && sq.len() == 0, "C15: the packet that leaves is the packet that was queued");
            seen_bypass |= next.time < until;
        } else {
            assert!(next.event == TriggerEvent::BlockingEnd && next.time == until, "C16: the end of blocking is reported by BlockingEnd exactly at the expiry");
            assert!(side_until.is_none() && sq.len() == 1, "C16: after BlockingEnd the side is no longer blocked and the waiting packet is still queued");
            seen_held |= case == 0;
        }
        core::mem::forget(sq);
        core::mem::forget(client);
        core::mem::forget(server);
        core::mem::forget(network);
        core::mem::forget(next);
        core::mem::forget(one);
        case += 1;
    }
    if only_case == 0 || only_case == 3 {
        kani::cover!(seen_bypass, "packet bypassed active blocking");
        kani::cover!(seen_held, "packet held back until BlockingEnd");
    } else {
        kani::cover!(!seen_bypass, "nothing left before the expiry");
    }
}
macro_rules! pnb {
    ($name:ident, $client:expr, $case:expr) => {
        #[kani::proof]
        #[kani::unwind(3)]
        #[kani::stub(alloc::fmt::format, format_stub)]
        #[kani::stub(rand::thread_rng, no_thread_rng)]
        fn $name() {
            pick_next_blocked($client, $case);
        }
    };
}
pnb!(s_pick_next_blocked_client_before, true, 0);
pnb!(s_pick_next_blocked_server_before, false, 0);
pnb!(s_pick_next_blocked_client_at, true, 1);
pnb!(s_pick_next_blocked_server_at, false, 1);
pnb!(s_pick_next_blocked_client_after, true, 2);
pnb!(s_pick_next_blocked_client_tie, true, 3);
pnb!(s_pick_next_blocked_server_tie, false, 3);
pnb!(s_pick_next_blocked_server_after, false, 2);

// ------------------------------------------------------------------------------------------
// C15: the "all normal packets processed" stop condition; C19: aggregate-delay bookkeeping is total
// ------------------------------------------------------------------------------------------
/// `no_normal_packets` may only report "done" when no normal packet is pending anywhere:
/// in the base trace, waiting to enter the tunnel (blocked or bypassable), or in flight.
#[kani::proof]
#[kani::unwind(4)]
fn s_no_normal_packets() {
    let t = any_instant();
    let mut sq = empty_queue();
    let is_client: bool = kani::any();
    // one pending event of any kind that can sit in a queue
    let which: u8 = kani::any();
    kani::assume(which < 5);
    let padding: bool = kani::any();
    let bypass: bool = kani::any();
    let ev = match which {
        0 => TriggerEvent::NormalSent,
        1 => TriggerEvent::TunnelSent,
        2 => TriggerEvent::TunnelRecv,
        3 => TriggerEvent::NormalRecv,
        _ => TriggerEvent::BlockingBegin { machine: MachineId::from_raw(0) },
    };
    let carries_padding = padding && (which == 1 || which == 2);
    sq.push_sim(SimEvent { event: ev, time: t, integration_delay: Duration::ZERO, client: is_client, contains_padding: carries_padding,
        bypass: bypass && which == 1, replace: false, debug_note: None });
    let done = sq.no_normal_packets();
    let normal_pending = which == 0 || ((which == 1 || which == 2) && !carries_padding);
    assert!(!(done && normal_pending),
        "C15: the run may only end as 'all normal packets processed' when no normal packet is pending in the trace, in a (blocked or bypassable) egress queue, or in flight");
    let empty = empty_queue();
    assert!(empty.no_normal_packets(), "C15: with nothing queued all normal packets are processed");
    kani::cover!(which == 1 && bypass && !carries_padding, "normal packet waiting in the bypassable queue");
    core::mem::forget(sq);
    core::mem::forget(empty);
}

/// pushing an aggregate delay never panics (Duration arithmetic) for any blocked duration and
/// network delay up to an hour, on either side
#[kani::proof]
#[kani::unwind(4)]
fn s_push_aggregate_delay() {
    let d = any_duration_upto(3_600_000_000);
    let mut nb = crate::network::verif_kani::small_bottleneck(Network::new(d, None), Duration::from_secs(1), usize::MAX, Duration::ZERO);
    let block = any_duration_upto(3_600_000_000);
    let t = any_instant();
    let client_expiry: bool = kani::any();
    nb.push_aggregate_delay(block, &t, client_expiry);
    assert!(nb.peek_aggregate_delay(t) != Duration::MAX, "C19: a pushed aggregate delay is pending");
    kani::cover!(block > d * 3 && block < d * 4, "blocked duration between three and four network delays");
    core::mem::forget(nb);
}


/// The bypass + replace path in full, with concrete instants (only the flags are symbolic): a
/// normal packet waits to enter the tunnel (possibly already allowed to bypass), a padding with
/// bypass and replace is sent. The waiting packet is never duplicated or dropped.
#[kani::proof]
#[kani::unwind(4)]
#[kani::stub(alloc::fmt::format, format_stub)]
#[kani::stub(rand::thread_rng, no_thread_rng)]
fn s_stack_padding_replace_flags() {
    #[repr(C)]
    struct TS {
        secs: i64,
        nanos: u32,
    }
    let t0 = unsafe { core::mem::transmute::<TS, Instant>(TS { secs: 1 << 21, nanos: 0 }) };
    let now = t0 + Duration::from_secs(1);
    let none: &[Machine] = &[];
    let mut side = state_with(none, t0);
    let mut other = state_with(none, t0);
    side.blocking_until = Some(t0 + Duration::from_secs(5));
    side.blocking_bypassable = kani::any();
    let mut network = crate::network::verif_kani::small_bottleneck(Network::new(Duration::from_micros(1000), None), Duration::from_secs(1), usize::MAX, Duration::ZERO);
    let mut sq = empty_queue();
    let q_bypass: bool = kani::any();
    sq.push_sim(SimEvent { event: TriggerEvent::TunnelSent, time: t0, integration_delay: Duration::ZERO, client: true,
        contains_padding: false, bypass: q_bypass, replace: false, debug_note: None });
    let next = SimEvent { event: TriggerEvent::PaddingSent { machine: MachineId::from_raw(0) }, time: now, integration_delay: Duration::ZERO,
        client: true, contains_padding: true, bypass: true, replace: true, debug_note: None };
    let _ = sim_network_stack(&next, &mut sq, &side, &mut other, &mut network, &now);
    let mine = &sq.client;
    let normals = mine.blocking.len() + mine.bypassable.len() - mine.blocking.iter().chain(mine.bypassable.iter()).filter(|e| e.contains_padding).count();
    assert!(normals == 1, "C15: normal packets are never created, duplicated or dropped when a bypass+replace padding takes a waiting packet's place");
    let replaced = !q_bypass || !side.blocking_bypassable;
    assert!(mine.len() == if replaced { 1 } else { 2 }, "C15: a replaced padding adds no packet; a padding that replaces nothing adds exactly one");
    if replaced {
        let e = mine.bypassable.peek();
        assert!(e.is_some() && !e.unwrap().contains_padding && e.unwrap().bypass && e.unwrap().time == t0,
            "C16: the waiting normal packet inherits the bypass of the padding it replaces and keeps its time");
    }
    kani::cover!(q_bypass && !side.blocking_bypassable, "waiting packet already bypassable under non-bypassable blocking");
    core::mem::forget(sq);
    core::mem::forget(side);
    core::mem::forget(other);
    core::mem::forget(network);
}
