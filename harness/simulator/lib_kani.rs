//! Simulator step contracts (child module of maybenot-simulator's lib.rs, cfg(kani) only).
use super::*;

#[kani::proof]
fn s_warm() {
    let x: u8 = kani::any();
    assert!(x as u16 <= 255);
}
