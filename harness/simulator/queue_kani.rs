// placeholder
