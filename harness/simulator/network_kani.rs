//! child module of maybenot-simulator::network (cfg(kani) only): constructors with private access
use super::*;

/// A bottleneck model exactly as `NetworkBottleneck::new` builds it, except that the two rate
/// windows start with a capacity of 4 instead of 512 timestamps (the 8 KiB buffers make the
/// propositional encoding run out of memory; capacity is not observable).
pub(crate) fn small_bottleneck(network: Network, window: Duration, pps_limit: usize, added: Duration) -> NetworkBottleneck {
    NetworkBottleneck {
        network,
        client_window: WindowCount { window, timestamps: VecDeque::with_capacity(4) },
        server_window: WindowCount { window, timestamps: VecDeque::with_capacity(4) },
        pps_added_delay: added,
        client_aggregate_base_delay: Duration::default(),
        server_aggregate_base_delay: Duration::default(),
        aggregate_delay_queue: BinaryHeap::new(),
        pps_limit,
    }
}

/// contract of `NetworkBottleneck::sample` while the rate limit is not exceeded (decided for the
/// real function by s_bottleneck_sample): the configured network delay, no extra delay
pub(crate) fn sample_unlimited(this: &mut NetworkBottleneck, _current_time: &Instant, _is_client: bool) -> (Duration, Option<Duration>) {
    (this.network.sample(), None)
}

/// the real `sample`: with at most `pps_limit` packets inside the window nothing is added to the
/// configured delay (C14: the bottleneck derived from the trace's own peak rate never delays)
#[kani::proof]
#[kani::unwind(4)]
fn s_bottleneck_sample() {
    let delay = crate::verif_kani::any_duration_upto(10_000_000);
    let limit: usize = kani::any();
    kani::assume(limit >= 1);
    let mut nb = small_bottleneck(Network::new(delay, Some(limit)), Duration::from_secs(1), limit, crate::verif_kani::any_duration_upto(1_000_000));
    let t1 = crate::verif_kani::any_instant();
    let is_client: bool = kani::any();
    let (d1, e1) = nb.sample(&t1, is_client);
    assert!(d1 == delay && e1.is_none(),
        "C14: while the packets-per-second limit is not exceeded a packet is delayed by exactly the network delay");
    let w = if is_client { &nb.client_window } else { &nb.server_window };
    assert!(w.timestamps.len() == 1, "C19: the rate window holds the packet just sent");
    kani::cover!(delay == Duration::ZERO, "zero network delay");
    core::mem::forget(nb);
}

/// `WindowCount::new` with a small buffer (see small_bottleneck)
pub(crate) fn window_new_small(window: Duration) -> WindowCount {
    WindowCount { window, timestamps: VecDeque::with_capacity(4) }
}
