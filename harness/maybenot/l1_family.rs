// L1 for one machine family Fam(S, K): included into `mod famSK { const S; const K; }`.
//
// The machine step is decided compositionally over its own recursion (DESIGN.md 2.5):
//   L1a  real `transition`      with `update_counter` replaced by the reference
//   L1b  real `update_counter`  with `transition`     replaced by the reference
// Both compare the real code with the reference semantics from every Inv-state; by induction on
// the number of counters not yet marked as zeroed in this call (asserted to decrease at every
// nested step) the real machine step equals the reference at every recursion depth.
use super::*;


/// flat description of a machine of the family (plain scalars: what the reference reads)
#[derive(Clone, Copy)]
pub(crate) struct FM {
    pub allowed_padding_packets: u64,
    pub max_padding_frac: f64,
    pub allowed_blocked_microsec: u64,
    pub max_blocking_frac: f64,
    /// the event whose row is populated (besides CounterZero): any of the 13
    pub e: usize,
    /// 0 none, 1 cancel, 2 padding, 3 blocking, 4 timer
    pub kind: [u8; S],
    pub bypass: [bool; S],
    pub replace: [bool; S],
    pub timer: [u8; S],
    pub has_limit: [bool; S],
    /// 0 no counter update, 1 increment, 2 decrement, 3 set
    pub ca_op: [u8; S],
    pub ca_copy: [bool; S],
    pub ca_dist: [bool; S],
    pub cb_op: [u8; S],
    pub cb_copy: [bool; S],
    pub cb_dist: [bool; S],
    pub re_present: [bool; S],
    pub re_t: [[usize; K]; S],
    pub re_p: [[f32; K]; S],
    pub rz_present: [bool; S],
    pub rz_t: [[usize; K]; S],
    pub rz_p: [[f32; K]; S],
}

fn any_row_into(t: &mut [usize; K], p: &mut [f32; K]) {
    // documented well-formedness of a row: targets are existing states or pseudo-states without
    // duplicates, probabilities real in (0,1], running f32 sum at most 1
    let mut sum: f32 = 0.0;
    let mut i = 0;
    while i < K {
        let tgt: usize = kani::any();
        kani::assume(tgt < S || tgt == STATE_END || tgt == STATE_SIGNAL);
        let pr: f32 = kani::any();
        kani::assume(pr > 0.0 && pr <= 1.0);
        let mut j = 0;
        while j < i {
            kani::assume(t[j] != tgt);
            j += 1;
        }
        t[i] = tgt;
        p[i] = pr;
        sum += pr;
        i += 1;
    }
    kani::assume(sum <= 1.0);
}

pub(crate) fn any_fm() -> FM {
    let mut fm = FM {
        allowed_padding_packets: kani::any(),
        max_padding_frac: kani::any(),
        allowed_blocked_microsec: kani::any(),
        max_blocking_frac: kani::any(),
        e: kani::any(),
        kind: kani::any(),
        bypass: kani::any(),
        replace: kani::any(),
        timer: kani::any(),
        has_limit: kani::any(),
        ca_op: kani::any(),
        ca_copy: kani::any(),
        ca_dist: kani::any(),
        cb_op: kani::any(),
        cb_copy: kani::any(),
        cb_dist: kani::any(),
        re_present: kani::any(),
        re_t: [[0; K]; S],
        re_p: [[1.0; K]; S],
        rz_present: kani::any(),
        rz_t: [[0; K]; S],
        rz_p: [[1.0; K]; S],
    };
    kani::assume(fm.e < EVENT_NUM);
    kani::assume(real_frac(fm.max_padding_frac) && real_frac(fm.max_blocking_frac));
    let mut s = 0;
    while s < S {
        kani::assume(fm.kind[s] <= 4 && fm.timer[s] <= 2 && fm.ca_op[s] <= 3 && fm.cb_op[s] <= 3);
        // canonical form: fields a kind does not have are false/zero
        if fm.kind[s] < 2 {
            kani::assume(!fm.has_limit[s]);
        }
        if fm.kind[s] != 2 && fm.kind[s] != 3 {
            kani::assume(!fm.bypass[s]);
        }
        if fm.kind[s] < 2 {
            kani::assume(!fm.replace[s]);
        }
        if fm.kind[s] != 1 {
            kani::assume(fm.timer[s] == 0);
        }
        any_row_into(&mut fm.re_t[s], &mut fm.re_p[s]);
        any_row_into(&mut fm.rz_t[s], &mut fm.rz_p[s]);
        if fm.e == EV_ZERO {
            // the driving row IS the CounterZero row
            kani::assume(!fm.rz_present[s]);
        }
        s += 1;
    }
    fm
}

pub(crate) fn action_of(fm: &FM, s: usize) -> Option<Action> {
    let lim = opt_dist(fm.has_limit[s]);
    match fm.kind[s] {
        0 => None,
        1 => Some(Action::Cancel { timer: timer_of(fm.timer[s]) }),
        2 => Some(Action::SendPadding { bypass: fm.bypass[s], replace: fm.replace[s], timeout: dummy_dist(), limit: lim }),
        3 => Some(Action::BlockOutgoing { bypass: fm.bypass[s], replace: fm.replace[s], timeout: dummy_dist(), duration: dummy_dist(), limit: lim }),
        _ => Some(Action::UpdateTimer { replace: fm.replace[s], duration: dummy_dist(), limit: lim }),
    }
}
fn counter_of(op: u8, copy: bool, dist: bool) -> Option<Counter> {
    let operation = match op {
        0 => return None,
        1 => Operation::Increment,
        2 => Operation::Decrement,
        _ => Operation::Set,
    };
    Some(Counter { operation, dist: opt_dist(dist), copy })
}

/// typed storage for the rows of one machine (never moved after the Vec views are taken)
pub(crate) struct RowBufs {
    pub e: [[Trans; K]; S],
    pub z: [[Trans; K]; S],
}
impl RowBufs {
    pub(crate) fn new() -> Self {
        RowBufs { e: [[Trans(0, 1.0); K]; S], z: [[Trans(0, 1.0); K]; S] }
    }
}
pub(crate) fn build_state(fm: &FM, s: usize, bufs: &mut RowBufs) -> State {
    const NT: Option<Vec<Trans>> = None;
    let mut tr = [NT; EVENT_NUM];
    let mut i = 0;
    while i < K {
        bufs.e[s][i] = Trans(fm.re_t[s][i], fm.re_p[s][i]);
        bufs.z[s][i] = Trans(fm.rz_t[s][i], fm.rz_p[s][i]);
        i += 1;
    }
    if fm.rz_present[s] {
        tr[EV_ZERO] = Some(unsafe { Vec::from_raw_parts(bufs.z[s].as_mut_ptr(), K, K) });
    }
    if fm.re_present[s] {
        tr[fm.e] = Some(unsafe { Vec::from_raw_parts(bufs.e[s].as_mut_ptr(), K, K) });
    }
    state_from_parts(
        action_of(fm, s),
        (counter_of(fm.ca_op[s], fm.ca_copy[s], fm.ca_dist[s]), counter_of(fm.cb_op[s], fm.cb_copy[s], fm.cb_dist[s])),
        tr,
    )
}
pub(crate) fn machine_over(fm: &FM, sarr: &mut [State; S]) -> Machine {
    Machine {
        allowed_padding_packets: fm.allowed_padding_packets,
        max_padding_frac: fm.max_padding_frac,
        allowed_blocked_microsec: fm.allowed_blocked_microsec,
        max_blocking_frac: fm.max_blocking_frac,
        states: unsafe { vec_over(sarr) },
    }
}

// ------------------------------------------------------------------ flat action slot
#[derive(Clone, Copy, PartialEq, Eq)]
pub(crate) struct Slot {
    /// 0 empty, 1 cancel, 2 padding, 3 blocking, 4 timer
    pub kind: u8,
    pub machine: usize,
    pub timeout: u64,
    pub duration: u64,
    pub bypass: bool,
    pub replace: bool,
    pub timer: u8,
}
pub(crate) const EMPTY: Slot = Slot { kind: 0, machine: 0, timeout: 0, duration: 0, bypass: false, replace: false, timer: 0 };
pub(crate) fn slot_of(o: &Option<TriggerAction<VT>>) -> Slot {
    match o {
        None => EMPTY,
        Some(TriggerAction::Cancel { machine, timer }) => Slot { kind: 1, machine: machine.into_raw(), timer: timer_ix(*timer), ..EMPTY },
        Some(TriggerAction::SendPadding { timeout, bypass, replace, machine }) => {
            Slot { kind: 2, machine: machine.into_raw(), timeout: timeout.0, bypass: *bypass, replace: *replace, ..EMPTY }
        }
        Some(TriggerAction::BlockOutgoing { timeout, duration, bypass, replace, machine }) => {
            Slot { kind: 3, machine: machine.into_raw(), timeout: timeout.0, duration: duration.0, bypass: *bypass, replace: *replace, ..EMPTY }
        }
        Some(TriggerAction::UpdateTimer { duration, replace, machine }) => {
            Slot { kind: 4, machine: machine.into_raw(), duration: duration.0, replace: *replace, ..EMPTY }
        }
    }
}
pub(crate) fn slot_to(s: Slot) -> Option<TriggerAction<VT>> {
    let machine = MachineId::from_raw(s.machine);
    match s.kind {
        0 => None,
        1 => Some(TriggerAction::Cancel { machine, timer: timer_of(s.timer) }),
        2 => Some(TriggerAction::SendPadding { timeout: VD(s.timeout), bypass: s.bypass, replace: s.replace, machine }),
        3 => Some(TriggerAction::BlockOutgoing { timeout: VD(s.timeout), duration: VD(s.duration), bypass: s.bypass, replace: s.replace, machine }),
        _ => Some(TriggerAction::UpdateTimer { duration: VD(s.duration), replace: s.replace, machine }),
    }
}

// ------------------------------------------------------------------ reference run state
#[derive(Clone, Copy)]
pub(crate) struct RR {
    pub cs: usize,
    pub limit: u64,
    pub ca: u64,
    pub cb: u64,
    pub slot: Slot,
    pub sig: RSig,
    pub czo: (bool, bool),
    // facts recorded for the property-tagged assertions
    pub pad_allowed: bool,
    pub block_allowed: bool,
    pub zero_steps: u8,
}
pub(crate) fn rr_read(f: &FW<'_>, mi: usize) -> RR {
    let rt = &f.runtime[mi];
    RR {
        cs: rt.current_state,
        limit: rt.state_limit,
        ca: rt.counter_a,
        cb: rt.counter_b,
        slot: slot_of(&f.actions[mi]),
        sig: sig_of(&f.signal_pending),
        czo: czo_get(f, mi),
        pad_allowed: false,
        block_allowed: false,
        zero_steps: 0,
    }
}
pub(crate) fn rr_write(f: &mut FW<'_>, mi: usize, r: &RR) {
    f.runtime[mi].current_state = r.cs;
    f.runtime[mi].state_limit = r.limit;
    f.runtime[mi].counter_a = r.ca;
    f.runtime[mi].counter_b = r.cb;
    unsafe { core::ptr::write(&mut f.actions[mi], slot_to(r.slot)) };
    f.signal_pending = sig_to(r.sig);
    czo_set(f, mi, r.czo);
}

fn limits_flat(kind: u8, replace: bool, limit: u64) -> bool {
    match kind {
        0 => false,
        1 => true,
        2 => limit > 0 && unsafe { G_PAD_OK },
        3 => limit > 0 && unsafe { G_BLOCK_OK[replace as usize] },
        _ => limit > 0,
    }
}
fn draw_day(tape: &mut Tape) -> u64 {
    let v = tape.next_u64();
    kani::assume(v <= DAY_US);
    v
}
fn ref_apply(op: u8, cur: u64, v: u64) -> u64 {
    match op {
        1 => cur.saturating_add(v),
        2 => cur.saturating_sub(v),
        _ => v,
    }
}
fn ref_sample_row(t: &[usize; K], p: &[f32; K], w: u32) -> Option<usize> {
    // one uniform draw in [0,1) from the top 23 bits of one word; cumulative sums in declaration order
    let r = ((w >> 9) as f32) * (1.0 / 8388608.0);
    let mut sum: f32 = 0.0;
    let mut i = 0;
    while i < K {
        sum += p[i];
        if r < sum {
            return Some(t[i]);
        }
        i += 1;
    }
    None
}

/// counters of the entered state: both updates read the pre-transition values; unit / sampled /
/// copied operand; saturating; a counter that goes from non-zero to zero raises CounterZero once
/// per counter per call, immediately. Returns (no action scheduled by the nested step, nested
/// step changed the state).
pub(crate) fn ref_update_counter(fm: &FM, mi: usize, r: &mut RR, tape: &mut Tape, depth: u8) -> (bool, bool) {
    let s = r.cs;
    let (old_a, old_b) = (r.ca, r.cb);
    let mut zeroed = false;
    if fm.ca_op[s] != 0 {
        let v = if fm.ca_copy[s] { old_b } else if fm.ca_dist[s] { tape.next_u64() } else { 1 };
        r.ca = ref_apply(fm.ca_op[s], r.ca, v);
        if old_a != 0 && r.ca == 0 && !r.czo.0 {
            zeroed = true;
            r.czo.0 = true;
        }
    }
    if fm.cb_op[s] != 0 {
        let v = if fm.cb_copy[s] { old_a } else if fm.cb_dist[s] { tape.next_u64() } else { 1 };
        r.cb = ref_apply(fm.cb_op[s], r.cb, v);
        if old_b != 0 && r.cb == 0 && !r.czo.1 {
            zeroed = true;
            r.czo.1 = true;
        }
    }
    if zeroed {
        r.zero_steps += 1;
        if depth >= 2 {
            // two counters, one CounterZero each per call: a third nested step cannot happen
            assert!(false, "C01: CounterZero recursion deeper than the two counters allow");
            return (true, false);
        }
        let changed = ref_transition(fm, mi, r, tape, EV_ZERO, depth + 1);
        return (r.slot.kind == 0, changed);
    }
    (true, false)
}

/// Reference machine step, written from lib.rs:60-199 and the doc comments of framework.rs,
/// state.rs, counter.rs and action.rs: sample the next state for the event; END and SIGNAL are
/// pseudo-states; the limit is re-sampled only when the state changes; the limits are judged for
/// the entered state, the counters are updated before the action is scheduled, an action
/// scheduled by a CounterZero step wins. Returns "state changed".
pub(crate) fn ref_transition(fm: &FM, mi: usize, r: &mut RR, tape: &mut Tape, e: usize, depth: u8) -> bool {
    if r.cs == STATE_END {
        return false;
    }
    let s0 = r.cs;
    let (present, t, p) = if e == fm.e {
        (fm.re_present[s0], fm.re_t[s0], fm.re_p[s0])
    } else if e == EV_ZERO {
        (fm.rz_present[s0], fm.rz_t[s0], fm.rz_p[s0])
    } else {
        return false;
    };
    if !present {
        return false;
    }
    let w = tape.next_u32();
    let Some(target) = ref_sample_row(&t, &p, w) else {
        return false;
    };
    if target == STATE_END {
        r.cs = STATE_END;
        return true;
    }
    if target == STATE_SIGNAL {
        r.sig = sig_rule(r.sig, mi);
        return false;
    }
    if target != s0 {
        r.cs = target;
        r.limit = if fm.kind[target] >= 2 && fm.has_limit[target] { tape.next_u64() } else { u64::MAX };
    }
    let kind = fm.kind[target];
    let below = limits_flat(kind, fm.replace[target], r.limit);
    let (allow, nested_changed) = ref_update_counter(fm, mi, r, tape, depth);
    if allow && below {
        let mut sl = Slot { kind, machine: mi, ..EMPTY };
        match kind {
            1 => sl.timer = fm.timer[target],
            2 => {
                sl.timeout = draw_day(tape);
                sl.bypass = fm.bypass[target];
                sl.replace = fm.replace[target];
                r.pad_allowed = true;
            }
            3 => {
                sl.timeout = draw_day(tape);
                sl.duration = draw_day(tape);
                sl.bypass = fm.bypass[target];
                sl.replace = fm.replace[target];
                r.block_allowed = true;
            }
            _ => {
                sl.duration = draw_day(tape);
                sl.replace = fm.replace[target];
            }
        }
        r.slot = sl;
    }
    s0 != r.cs || nested_changed
}

// ------------------------------------------------------------------ the transition contract TC
// (asserted for the real step at L1, assumed by the L2 stub)
#[derive(Clone, Copy)]
pub(crate) struct Snap {
    pub cs: usize,
    pub limit: u64,
    pub slot: Slot,
    pub sig: RSig,
    pub czo: (bool, bool),
}
pub(crate) fn snap_of_rr(r: &RR) -> Snap {
    Snap { cs: r.cs, limit: r.limit, slot: r.slot, sig: r.sig, czo: r.czo }
}
pub(crate) fn slot_wf(sl: &Slot, mi: usize) -> bool {
    sl.kind >= 1 && sl.kind <= 4 && sl.machine == mi && sl.timeout <= DAY_US && sl.duration <= DAY_US && sl.timer <= 2
}
pub(crate) fn tc_post(pre: &Snap, post: &Snap, changed: bool, mi: usize, num_states: usize) -> bool {
    if pre.cs == STATE_END {
        return post.cs == STATE_END && post.limit == pre.limit && post.slot == pre.slot && post.sig == pre.sig
            && post.czo == pre.czo && !changed;
    }
    (post.cs < num_states || post.cs == STATE_END)
        && (changed || (post.cs == pre.cs && post.limit == pre.limit))
        && (post.slot == pre.slot || slot_wf(&post.slot, mi))
        && (post.sig == pre.sig || post.sig == sig_rule(pre.sig, mi))
        && (!pre.czo.0 || post.czo.0)
        && (!pre.czo.1 || post.czo.1)
}

// ------------------------------------------------------------------ stubs running the reference on the real framework
pub(crate) static mut G_FM: core::mem::MaybeUninit<FM> = core::mem::MaybeUninit::uninit();
pub(crate) static mut G_CZO_AT_ENTRY: u8 = 0;
pub(crate) static mut G_NESTED_STEPS: u8 = 0;

fn czo_count(c: (bool, bool)) -> u8 {
    c.0 as u8 + c.1 as u8
}
pub(crate) fn update_counter_ref<M, R, T>(this: &mut Framework<M, R, T>, mi: usize) -> (bool, bool)
where
    M: AsRef<[Machine]>,
    R: RngCore,
    T: crate::time::Instant,
{
    let f = unsafe { &mut *(this as *mut Framework<M, R, T> as *mut FW<'_>) };
    let fm = unsafe { G_FM.assume_init_ref() };
    assert!(f.runtime[mi].current_state < S, "C01: counters are updated only for a machine that is in one of its states");
    let mut r = rr_read(f, mi);
    let mut tape = f.rng;
    let out = ref_update_counter(fm, mi, &mut r, &mut tape, 0);
    f.rng = tape;
    rr_write(f, mi, &r);
    out
}
pub(crate) fn transition_ref<M, R, T>(this: &mut Framework<M, R, T>, mi: usize, event: Event) -> StateChange
where
    M: AsRef<[Machine]>,
    R: RngCore,
    T: crate::time::Instant,
{
    let f = unsafe { &mut *(this as *mut Framework<M, R, T> as *mut FW<'_>) };
    let fm = unsafe { G_FM.assume_init_ref() };
    unsafe {
        G_NESTED_STEPS += 1;
        assert!(event == Event::CounterZero, "C08: a counter update raises CounterZero and nothing else");
        assert!(czo_count(czo_get(f, mi)) > G_CZO_AT_ENTRY,
            "C01: every nested machine step is preceded by newly marking a counter as zeroed, so the recursion is bounded by the two counters");
    }
    let mut r = rr_read(f, mi);
    let mut tape = f.rng;
    let changed = ref_transition(fm, mi, &mut r, &mut tape, EV_ZERO, 1);
    f.rng = tape;
    rr_write(f, mi, &r);
    if changed {
        StateChange::Changed
    } else {
        StateChange::Unchanged
    }
}

// ------------------------------------------------------------------ shared harness body
pub(crate) struct Pre {
    pub cs: usize,
    pub limit: u64,
    pub ca: u64,
    pub cb: u64,
    pub slot: Slot,
    pub sig: RSig,
    pub czo: (bool, bool),
}
fn any_pre(fm: &FM, in_a_state: bool, mi: usize, m: usize) -> Pre {
    let cs: usize = kani::any();
    kani::assume(cs < S || (cs == STATE_END && !in_a_state));
    let limit: u64 = kani::any();
    // Inv: an action without limit distribution keeps a practically infinite limit
    if cs != STATE_END && fm.kind[cs] >= 1 && !fm.has_limit[cs] {
        kani::assume(limit >= (1 << 63));
    }
    // an action left in the slot by an earlier event of the same call (or nothing)
    let slot = if kani::any() { EMPTY } else { Slot { kind: 1, machine: mi, timer: 1, ..EMPTY } };
    Pre { cs, limit, ca: kani::any(), cb: kani::any(), slot, sig: any_sig(m), czo: (kani::any(), kani::any()) }
}
fn kind_flags_from_some_state(fm: &FM, sl: &Slot) -> bool {
    let mut ok = false;
    let mut s = 0;
    while s < S {
        ok |= fm.kind[s] == sl.kind
            && match sl.kind {
                1 => fm.timer[s] == sl.timer,
                2 | 3 => fm.bypass[s] == sl.bypass && fm.replace[s] == sl.replace,
                _ => fm.replace[s] == sl.replace,
            };
        s += 1;
    }
    ok
}

/// assertions common to L1a and L1b: `f` after the real code ran, `r`/`tape` after the reference ran
fn compare(fm: &FM, ac: &Acct, pre: &Pre, f: &FW<'_>, mi: usize, r: &RR, tape: &Tape, top_level: bool) {
    let rt = &f.runtime[mi];
    let slot = slot_of(&f.actions[mi]);
    let written = slot != pre.slot;
    let czo = czo_get(f, mi);
    let nested = czo != pre.czo;

    assert!(rt.current_state < S || rt.current_state == STATE_END, "C01: the machine is in one of its states or has ended (Inv)");
    if written {
        assert!(slot.kind != 0, "C04: a machine step never clears an action slot");
        assert!(slot_wf(&slot, mi), "C04: the action names its own machine and its timeout and duration are at most 24 hours");
        assert!(kind_flags_from_some_state(fm, &slot), "C04: the action has exactly the kind and flags of an action defined in some state of its machine");
        if slot.kind == 2 {
            assert!(r.pad_allowed, "C02: a padding action is scheduled although the padding limits forbid it");
        }
        if slot.kind == 3 {
            assert!(r.block_allowed, "C03: a blocking action is scheduled although the blocking limits forbid it");
        }
        if !nested && top_level {
            // no CounterZero step inside: the action belongs to the state the machine is in now
            assert!(slot.kind == 1 || rt.state_limit > 0, "C07(d): a limited action is scheduled although the state limit is zero");
        }
    }
    if top_level && !nested && rt.current_state == pre.cs {
        assert!(rt.state_limit == pre.limit, "C07(a): a self-transition (or no transition) must not refresh the state limit");
    }
    if top_level && !nested && rt.current_state != pre.cs && rt.current_state != STATE_END {
        let unlimited = fm.kind[rt.current_state] < 2 || !fm.has_limit[rt.current_state];
        assert!(!unlimited || rt.state_limit == u64::MAX, "C07(a): entering a state without limit distribution gives the maximum limit");
    }
    if rt.current_state != STATE_END && fm.kind[rt.current_state] >= 1 && !fm.has_limit[rt.current_state] {
        assert!(rt.state_limit >= (1 << 63), "C01: an action without limit distribution keeps a practically infinite limit (Inv)");
    }
    assert!((!pre.czo.0 || czo.0) && (!pre.czo.1 || czo.1), "C08: a counter marked as zeroed in this call stays marked");
    assert!(rt.counter_a == r.ca && rt.counter_b == r.cb,
        "C08: counters after the step differ from the saturating reference (unit / sampled / copied pre-transition value)");
    assert!(czo == r.czo, "C08: CounterZero must be raised exactly when a counter goes from non-zero to zero, once per counter per call");
    assert!(sig_of(&f.signal_pending) == r.sig,
        "C09: pending signal after the step differs (first signaller excluded, same signaller stays excluded, a second machine turns it into all)");
    assert!(rt.state_limit == r.limit, "C07(a): state limit after the step differs (sampled once on entering a different state, kept otherwise)");
    // ---- frame: nothing but this machine's state, its slot, the signal and the zero flags changes
    assert!(rt.padding_sent == ac.m_padding && rt.normal_sent == ac.f_normal && rt.blocking_duration == VD(ac.f_block_dur)
        && rt.machine_start == VT(ac.start) && rt.allowed_blocked_microsec == VD(fm.allowed_blocked_microsec),
        "C10: a machine step must not touch the machine's accounting");
    assert!(f.normal_sent_packets == ac.f_normal && f.padding_sent_packets == ac.f_padding && f.blocking_duration == VD(ac.f_block_dur)
        && f.blocking_started == VT(ac.f_block_started) && f.blocking_active == ac.f_block_active && f.current_time == VT(ac.now)
        && f.framework_start == VT(ac.start) && f.max_padding_frac.to_bits() == ac.f_pad_frac.to_bits()
        && f.max_blocking_frac.to_bits() == ac.f_block_frac.to_bits(),
        "C10: a machine step must not touch the framework-wide accounting");
    // ---- the differential proper
    assert!(rt.current_state == r.cs, "C05: state after the step differs from the documented semantics");
    assert!(slot == r.slot, "C05: action slot after the step differs from the documented semantics");
    assert!(f.rng.c32 == tape.c32 && f.rng.c64 == tape.c64, "C05: number of random draws differs from the documented semantics");
    assert!(f.rng.c32 <= 3 && f.rng.c64 <= 15 && r.zero_steps <= 2, "C01: the work of one machine step is bounded (at most three state draws)");
}

fn install(fm: &FM) {
    unsafe {
        G_FM.write(*fm);
        G_PAD_OK = kani::any();
        G_BLOCK_OK = [kani::any(), kani::any()];
        G_NESTED_STEPS = 0;
    }
}

/// L1a: the real `transition` (its own level), nested counter handling by the reference.
pub(crate) fn l1a_body() {
    set_mode(MODE_L1A);
    crate::verif::set_family(FAMILY);
    let fm = any_fm();
    install(&fm);
    let mut bufs = RowBufs::new();
    let mut sarr: [State; S] = core::array::from_fn(|s| build_state(&fm, s, &mut bufs));
    let machines: [Machine; 1] = [machine_over(&fm, &mut sarr)];
    let ac = any_acct();
    let pre = any_pre(&fm, false, 0, 1);
    let tape0 = Tape::any();
    let mut rts = [runtime_of(&ac, &machines[0], pre.cs, pre.limit, pre.ca, pre.cb)];
    let mut slots = [slot_to(pre.slot)];
    let mut f = framework_over(&machines, &mut rts, &mut slots, &ac, tape0);
    f.signal_pending = sig_to(pre.sig);
    czo_set(&mut f, 0, pre.czo);

    let ret = f.transition(0, <Event as enum_map::Enum>::from_usize(fm.e));

    let mut r = RR { cs: pre.cs, limit: pre.limit, ca: pre.ca, cb: pre.cb, slot: pre.slot, sig: pre.sig, czo: pre.czo,
        pad_allowed: false, block_allowed: false, zero_steps: 0 };
    let mut tape = tape0;
    let rret = ref_transition(&fm, 0, &mut r, &mut tape, fm.e, 0);

    if pre.cs == STATE_END {
        assert!(f.runtime[0].current_state == STATE_END && slot_of(&f.actions[0]) == pre.slot && ret == StateChange::Unchanged
            && f.rng.c32 == 0 && f.rng.c64 == 0,
            "C04: a machine that has reached its end state ignores every event and never yields an action");
    }
    compare(&fm, &ac, &pre, &f, 0, &r, &tape, true);
    assert!((ret == StateChange::Changed) == rret, "C05: reported state change differs from the documented semantics");
    // the contract the L2 stub assumes
    let pre_s = Snap { cs: pre.cs, limit: pre.limit, slot: pre.slot, sig: pre.sig, czo: pre.czo };
    let post_s = Snap { cs: f.runtime[0].current_state, limit: f.runtime[0].state_limit, slot: slot_of(&f.actions[0]),
        sig: sig_of(&f.signal_pending), czo: czo_get(&f, 0) };
    assert!(tc_post(&pre_s, &post_s, ret == StateChange::Changed, 0, S), "C01: transition contract TC (assumed by the whole-call level)");

    let written = slot_of(&f.actions[0]) != pre.slot;
    kani::cover!(written, "an action was scheduled");
    kani::cover!(written && slot_of(&f.actions[0]).kind == 2, "a padding action was scheduled");
    kani::cover!(written && slot_of(&f.actions[0]).kind == 3, "a blocking action was scheduled");
    kani::cover!(r.zero_steps >= 1 && written, "CounterZero step taken and an action scheduled");
    kani::cover!(r.zero_steps == 2, "both counters zeroed in one step");
    kani::cover!(f.runtime[0].current_state == STATE_END && pre.cs != STATE_END, "machine ended");
    kani::cover!(r.sig != pre.sig, "signal raised");
    kani::cover!(f.runtime[0].current_state != pre.cs && f.runtime[0].current_state != STATE_END, "moved to another state");
    kani::cover!(fm.e == 12 && written, "driven by Signal");
    core::mem::forget(f);
    core::mem::forget(machines);
    core::mem::forget(sarr);
}

/// L1b: the real `update_counter`, the nested machine step by the reference.
pub(crate) fn l1b_body() {
    set_mode(MODE_L1B);
    crate::verif::set_family(FAMILY);
    let fm = any_fm();
    install(&fm);
    let mut bufs = RowBufs::new();
    let mut sarr: [State; S] = core::array::from_fn(|s| build_state(&fm, s, &mut bufs));
    let machines: [Machine; 1] = [machine_over(&fm, &mut sarr)];
    let ac = any_acct();
    let pre = any_pre(&fm, true, 0, 1);
    unsafe { G_CZO_AT_ENTRY = czo_count(pre.czo) };
    let tape0 = Tape::any();
    let mut rts = [runtime_of(&ac, &machines[0], pre.cs, pre.limit, pre.ca, pre.cb)];
    let mut slots = [slot_to(pre.slot)];
    let mut f = framework_over(&machines, &mut rts, &mut slots, &ac, tape0);
    f.signal_pending = sig_to(pre.sig);
    czo_set(&mut f, 0, pre.czo);

    let (allow, changed) = f.update_counter(0);

    let mut r = RR { cs: pre.cs, limit: pre.limit, ca: pre.ca, cb: pre.cb, slot: pre.slot, sig: pre.sig, czo: pre.czo,
        pad_allowed: false, block_allowed: false, zero_steps: 0 };
    let mut tape = tape0;
    let (rallow, rchanged) = ref_update_counter(&fm, 0, &mut r, &mut tape, 0);

    let nested = unsafe { G_NESTED_STEPS };
    assert!(nested <= 1, "C08: one counter update raises at most one CounterZero step");
    assert!((nested == 1) == (r.zero_steps >= 1),
        "C08: CounterZero is delivered exactly when an update takes a counter from non-zero to zero (once per counter per call)");
    compare(&fm, &ac, &pre, &f, 0, &r, &tape, false);
    assert!(allow == rallow, "C08: an action scheduled by the CounterZero step takes precedence over the entered state's action");
    assert!(changed == rchanged, "C05: a CounterZero round trip counts as a state change");

    kani::cover!(nested == 1, "CounterZero step taken");
    kani::cover!(nested == 1 && !allow, "CounterZero step scheduled an action");
    kani::cover!(czo_get(&f, 0) == (true, true) && !pre.czo.0 && !pre.czo.1, "both counters zeroed by one update");
    kani::cover!(f.runtime[0].counter_a == u64::MAX && pre.ca != u64::MAX, "counter saturated at the maximum");
    kani::cover!(pre.czo.0 && pre.ca != 0 && f.runtime[0].counter_a == 0 && nested == 0, "second zeroing in the same call is not reported");
    core::mem::forget(f);
    core::mem::forget(machines);
    core::mem::forget(sarr);
}

/// L1b with a neighbour: two machines of the same definition in one framework; machine 0 may have
/// zeroed its counters earlier in this call, machine 1 updates its counters now. The statement is
/// "at most once per counter OF THAT MACHINE per call": machine 1's CounterZero must depend on
/// machine 1's own history only, and the update must not touch machine 0 (C08, C10).
pub(crate) fn l1b_pair_body() {
    set_mode(MODE_L1B);
    crate::verif::set_family(FAMILY);
    let fm = any_fm();
    install(&fm);
    let mut bufs = RowBufs::new();
    let mut sarr: [State; S] = core::array::from_fn(|s| build_state(&fm, s, &mut bufs));
    let m0 = machine_over(&fm, &mut sarr);
    let m1 = Machine {
        allowed_padding_packets: kani::any(),
        max_padding_frac: fm.max_padding_frac,
        allowed_blocked_microsec: kani::any(),
        max_blocking_frac: fm.max_blocking_frac,
        states: unsafe { Vec::from_raw_parts(sarr.as_mut_ptr(), S, S) },
    };
    let machines: [Machine; 2] = [m0, m1];
    let ac = any_acct();
    let other = any_pre(&fm, false, 0, 2);
    let pre = any_pre(&fm, true, 1, 2);
    unsafe { G_CZO_AT_ENTRY = czo_count(pre.czo) };
    let tape0 = Tape::any();
    let mut rts = [
        runtime_of(&ac, &machines[0], other.cs, other.limit, other.ca, other.cb),
        runtime_of(&ac, &machines[1], pre.cs, pre.limit, pre.ca, pre.cb),
    ];
    let mut slots = [slot_to(other.slot), slot_to(pre.slot)];
    let mut f = framework_over(&machines, &mut rts, &mut slots, &ac, tape0);
    f.signal_pending = sig_to(pre.sig);
    czo_set_pair(&mut f, other.czo, pre.czo);

    let (allow, changed) = f.update_counter(1);

    let mut r = RR { cs: pre.cs, limit: pre.limit, ca: pre.ca, cb: pre.cb, slot: pre.slot, sig: pre.sig, czo: pre.czo,
        pad_allowed: false, block_allowed: false, zero_steps: 0 };
    let mut tape = tape0;
    let (rallow, rchanged) = ref_update_counter(&fm, 1, &mut r, &mut tape, 0);

    let nested = unsafe { G_NESTED_STEPS };
    assert!((nested == 1) == (r.zero_steps >= 1),
        "C08: CounterZero is delivered exactly when an update takes a counter of that machine from non-zero to zero (once per counter of that machine per call)");
    assert!(f.runtime[1].counter_a == r.ca && f.runtime[1].counter_b == r.cb, "C08: counters after the update differ from the saturating reference");
    assert!(f.runtime[1].current_state == r.cs && slot_of(&f.actions[1]) == r.slot,
        "C10: the machine's state and action after its counter update depend on a neighbouring machine");
    assert!(allow == rallow && changed == rchanged, "C10: the result of the machine's counter update depends on a neighbouring machine");
    let o = &f.runtime[0];
    assert!(o.current_state == other.cs && o.state_limit == other.limit && o.counter_a == other.ca && o.counter_b == other.cb
        && slot_of(&f.actions[0]) == other.slot && czo_get(&f, 0) == other.czo,
        "C10: a machine's counter update must not touch another machine's state, counters, limit, flags or action");
    kani::cover!(nested == 1 && other.czo.0 && other.czo.1, "CounterZero step taken although the neighbour zeroed both of its counters in this call");
    core::mem::forget(f);
    core::mem::forget(machines);
    core::mem::forget(sarr);
}

#[kani::proof]
#[kani::unwind(4)]
#[kani::stub(crate::action::Action::sample_timeout, sample_timeout_c)]
#[kani::stub(crate::action::Action::sample_duration, sample_duration_c)]
#[kani::stub(crate::action::Action::sample_limit, sample_limit_c)]
#[kani::stub(crate::counter::Counter::sample_value, sample_value_c)]
#[kani::stub(Framework::below_action_limits, below_action_limits_c)]
#[kani::stub(crate::state::State::sample_state, crate::state::verif_kani::sample_state_c)]
#[kani::stub(Framework::transition, transition_ref)]
fn l1b_pair() {
    l1b_pair_body();
}

#[kani::proof]
#[kani::unwind(4)]
#[kani::stub(crate::action::Action::sample_timeout, sample_timeout_c)]
#[kani::stub(crate::action::Action::sample_duration, sample_duration_c)]
#[kani::stub(crate::action::Action::sample_limit, sample_limit_c)]
#[kani::stub(crate::counter::Counter::sample_value, sample_value_c)]
#[kani::stub(Framework::below_action_limits, below_action_limits_c)]
#[kani::stub(crate::state::State::sample_state, crate::state::verif_kani::sample_state_c)]
#[kani::stub(Framework::update_counter, update_counter_ref)]
fn l1a_transition() {
    l1a_body();
}

#[kani::proof]
#[kani::unwind(4)]
#[kani::stub(crate::action::Action::sample_timeout, sample_timeout_c)]
#[kani::stub(crate::action::Action::sample_duration, sample_duration_c)]
#[kani::stub(crate::action::Action::sample_limit, sample_limit_c)]
#[kani::stub(crate::counter::Counter::sample_value, sample_value_c)]
#[kani::stub(Framework::below_action_limits, below_action_limits_c)]
#[kani::stub(crate::state::State::sample_state, crate::state::verif_kani::sample_state_c)]
#[kani::stub(Framework::transition, transition_ref)]
fn l1b_update_counter() {
    l1b_body();
}
