//! cfg(kani)-only module injected as `maybenot::verif`: items the harnesses of the dependent
//! crates need, and the switch that selects which contract stubs the native replay links in.

/// Which stubs the natively compiled replay applies (set by each harness at its start; the Kani
/// verification build ignores it: there the stubs are applied by `#[kani::stub]`).
pub static mut REPLAY_MODE: u8 = 0;
pub const MODE_NONE: u8 = 0;
/// leaf contracts + update_counter := reference
pub const MODE_L1A: u8 = 1;
/// leaf contracts + transition := reference
pub const MODE_L1B: u8 = 2;
/// transition := contract TC (havoc + ghost record)
pub const MODE_L2: u8 = 3;
/// dist_sample := any f64
pub const MODE_DIST: u8 = 4;
/// State::validate := ghost
pub const MODE_MACHINE_VALIDATE: u8 = 5;
/// transition := any well-formed action (simulator / ffi harnesses)
pub const MODE_ANY_ACTION: u8 = 6;
/// Machine::validate := ghost, sample_limit := contract (k_framework_new)
pub const MODE_FRAMEWORK_NEW: u8 = 7;

pub fn set_mode(m: u8) {
    unsafe { REPLAY_MODE = m };
}
/// machine family (S, K) of the running L1 harness: selects which instance of the reference the
/// native replay hooks call
pub static mut REPLAY_FAMILY: u8 = 21;
pub fn set_family(f: u8) {
    unsafe { REPLAY_FAMILY = f };
}
pub fn family() -> u8 {
    unsafe { REPLAY_FAMILY }
}
pub fn mode() -> u8 {
    unsafe { REPLAY_MODE }
}
pub fn leaf_contracts_on() -> bool {
    let m = mode();
    m == MODE_L1A || m == MODE_L1B
}
pub fn limit_contract_on() -> bool {
    leaf_contracts_on() || mode() == MODE_FRAMEWORK_NEW
}

pub use crate::framework::verif_kani::{aa_calls, aa_duration, aa_last, aa_timeout, new_unchecked_impl as new_unchecked, transition_any_action_impl as transition_any_action, AnyAction, VD, VT};

/// a machine with one state that has no action, no counters and no transitions (built without
/// validation: Machine::new would run the hashbrown-based row judgement as mere set-up)
pub fn noop_machine() -> crate::Machine {
    const NT: Option<Vec<crate::state::Trans>> = None;
    crate::Machine {
        allowed_padding_packets: 0,
        max_padding_frac: 0.0,
        allowed_blocked_microsec: 0,
        max_blocking_frac: 0.0,
        states: vec![crate::state::verif_kani::state_from_parts(None, (None, None), [NT; crate::constants::EVENT_NUM])],
    }
}
