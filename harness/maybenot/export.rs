// placeholder
