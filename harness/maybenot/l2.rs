// L2: whole `trigger_events` / `process_event` calls with `Framework::transition` replaced by the
// transition contract TC (the same predicate `tc_post` that L1 asserts for the real step): the stub
// checks its precondition, appends to a ghost delivery log, havocs exactly what TC allows.
// Machines are opaque here (any number of states' worth of behaviour is covered by the havoc); only
// their per-state actions matter to the code under test (limit withdrawal).
use super::fam21::{slot_of, slot_to, slot_wf, tc_post, Slot, Snap, EMPTY};
use super::*;

/// one state per (opaque) machine suffices at this level: the code under test reads a machine's
/// states only for `has_limit` of the CURRENT state when a completion did not change the state
pub(crate) const S2: usize = 1;
pub(crate) const MAXM: usize = 3;

// ---- ghost state (reset by the harness, advanced by the contract stub in O(1) per machine step)
pub(crate) static mut G_STEPS: usize = 0;
pub(crate) static mut G_EVENTS: usize = 0;
pub(crate) static mut G_NORMAL: u64 = 0;
pub(crate) static mut G_PAD_GLOBAL: u64 = 0;
pub(crate) static mut G_PAD: [u64; MAXM] = [0; MAXM];
pub(crate) static mut G_BLOCK_ACTIVE: bool = false;
pub(crate) static mut G_BLOCK_STARTED: u64 = 0;
pub(crate) static mut G_BLOCK_DUR: u64 = 0;
pub(crate) static mut G_NOW: u64 = 0;
/// the single reported event of this call: internal event index and addressed machine
pub(crate) static mut G_CUR_EV: usize = 0;
pub(crate) static mut G_CUR_ID: usize = 0;
/// second event of a two-event batch (batches are only built from the four event kinds without
/// accounting or limit effects: NormalRecv, PaddingRecv, TunnelRecv, TunnelSent)
pub(crate) static mut G_CUR_EV2: usize = usize::MAX;
/// what each machine must look like when it is looked at next (after its last step, corrected by
/// the documented limit decrement / withdrawal): the code under test must not change it otherwise
pub(crate) static mut G_EXPECT: [Snap; MAXM] = [Snap { cs: 0, limit: 0, slot: EMPTY, sig: RSig::None, czo: (false, false) }; MAXM];
pub(crate) static mut G_COUNTERS: [(u64, u64); MAXM] = [(0, 0); MAXM];
pub(crate) static mut G_STEPPED: [bool; MAXM] = [false; MAXM];
pub(crate) static mut G_OWN_DONE: bool = false;
pub(crate) static mut G_LR_DUE: bool = false;
pub(crate) static mut G_LR_SEEN: bool = false;
// signals
pub(crate) static mut G_SIG_GOT: [u8; MAXM] = [0; MAXM];
pub(crate) static mut G_PHASE1: [bool; MAXM] = [false; MAXM];
pub(crate) static mut G_RESPONDERS: bool = false;
pub(crate) static mut G_ROUND_STARTED: bool = false;
/// flat description of the actions of the (opaque) machines: kind / has_limit / flags per state
pub(crate) static mut G_KIND: [[u8; S2]; MAXM] = [[0; S2]; MAXM];
pub(crate) static mut G_HAS_LIMIT: [[bool; S2]; MAXM] = [[false; S2]; MAXM];
pub(crate) static mut G_BYPASS: [[bool; S2]; MAXM] = [[false; S2]; MAXM];
pub(crate) static mut G_REPLACE: [[bool; S2]; MAXM] = [[false; S2]; MAXM];
pub(crate) static mut G_TIMER: [[u8; S2]; MAXM] = [[0; S2]; MAXM];

fn inv_limit(mi: usize, cs: usize, limit: u64) -> bool {
    // Inv: an action without limit distribution keeps a practically infinite limit
    unsafe { cs == STATE_END || G_KIND[mi][cs] == 0 || G_HAS_LIMIT[mi][cs] || limit >= (1 << 63) }
}
fn consumes_limit(ev: usize) -> bool {
    ev == 4 || ev == 6 || ev == 10
}

pub(crate) fn transition_tc<M, R, T>(this: &mut Framework<M, R, T>, mi: usize, event: Event) -> StateChange
where
    M: AsRef<[Machine]>,
    R: RngCore,
    T: crate::time::Instant,
{
    let f = unsafe { &mut *(this as *mut Framework<M, R, T> as *mut FW<'_>) };
    let m = f.runtime.len();
    let ev = event.to_usize();
    assert!(mi < m, "C01: a machine step is only ever taken for a machine that exists (ids are bounds-checked)");
    let pre = Snap {
        cs: f.runtime[mi].current_state,
        limit: f.runtime[mi].state_limit,
        slot: slot_of(&f.actions[mi]),
        sig: sig_of(&f.signal_pending),
        czo: czo_get(f, mi),
    };
    unsafe {
        assert!(G_STEPS < (G_EVENTS + 1) * (m + 1), "C01: the work of one call is bounded by (events + 1) x (machines + 1) machine steps");
        G_STEPS += 1;
        // the accounting every machine step sees includes the event being processed (C02, C03)
        assert!(f.normal_sent_packets == G_NORMAL && f.padding_sent_packets == G_PAD_GLOBAL,
            "C02: the framework-wide packet counts seen by a machine step are the recount of all reports including the current event");
        assert!(f.runtime[mi].normal_sent == G_NORMAL && f.runtime[mi].padding_sent == G_PAD[mi],
            "C02: the machine's packet counts seen by its step are the recount of all reports including the current event");
        assert!(f.blocking_active == G_BLOCK_ACTIVE && f.blocking_duration == VD(G_BLOCK_DUR)
            && (!G_BLOCK_ACTIVE || f.blocking_started == VT(G_BLOCK_STARTED)),
            "C03: the blocked time seen by a machine step is measured from the BlockingBegin/BlockingEnd reports and the call timestamps");
        assert!(f.runtime[mi].blocking_duration == VD(G_BLOCK_DUR), "C03: every machine is charged the framework's blocked time");
        assert!(f.current_time == VT(G_NOW), "C03: the time of the call is what a machine step sees");
        // nothing but a machine's own steps and the documented limit rule changed it since its last step
        assert!(pre.cs == G_EXPECT[mi].cs && (f.runtime[mi].counter_a, f.runtime[mi].counter_b) == G_COUNTERS[mi],
            "C10: a machine's state and counters change only in its own steps");
        assert!(pre.limit == G_EXPECT[mi].limit,
            "C07(b)/C10: a machine's limit changes only by its own steps and by one unit per own completion reported without state change");
        assert!(pre.czo == G_EXPECT[mi].czo,
            "C08: the zeroed-once flags of a machine are reset once at the start of a call and then persist for the whole call (all events of a batch)");
        assert!(pre.slot == G_EXPECT[mi].slot, "C04/C10: a machine's action slot is reset at the start of a call and otherwise written only by its own steps (or withdrawn with LimitReached)");
        // LimitReached is raised exactly when due, immediately
        if G_LR_DUE {
            assert!(ev == EV_LIMIT && mi == G_CUR_ID, "C07(b): LimitReached must be raised for the machine immediately after its completion exhausted the limit");
            G_LR_DUE = false;
            G_LR_SEEN = true;
        } else {
            assert!(ev != EV_LIMIT, "C07(b)/C10: LimitReached is raised only when a machine's own completion, reported without state change, exhausts a limited action's limit");
        }
        // signals
        if ev == EV_SIGNAL {
            G_ROUND_STARTED = true;
            G_SIG_GOT[mi] += 1;
        } else {
            assert!(!G_ROUND_STARTED, "C09: the signal round is the last thing that happens in a call");
            assert!(ev == EV_LIMIT || ev == G_CUR_EV || ev == G_CUR_EV2, "C05: machines are stepped with the reported event (or the internal LimitReached / Signal)");
            if ev != EV_LIMIT && G_CUR_EV != 6 && !matches!(G_CUR_EV, 0 | 1 | 2 | 3 | 5 | 7) {
                assert!(mi == G_CUR_ID, "C10: an event addressed to one machine is delivered to that machine only");
            }
        }
    }
    // ---- havoc what TC allows
    let mut post = pre;
    let mut changed = false;
    let mut signalled = false;
    if pre.cs != STATE_END {
        changed = kani::any();
        if changed {
            post.cs = kani::any();
            post.limit = kani::any();
        }
        if kani::any() {
            // an action of some state of this machine, timeout/duration at most a day
            let s: usize = kani::any();
            kani::assume(s < S2);
            let kind = unsafe { G_KIND[mi][s] };
            kani::assume(kind != 0);
            let mut sl = Slot { kind, machine: mi, ..EMPTY };
            let (to, du): (u64, u64) = (kani::any(), kani::any());
            kani::assume(to <= DAY_US && du <= DAY_US);
            unsafe {
                match kind {
                    1 => sl.timer = G_TIMER[mi][s],
                    2 => { sl.timeout = to; sl.bypass = G_BYPASS[mi][s]; sl.replace = G_REPLACE[mi][s]; }
                    3 => { sl.timeout = to; sl.duration = du; sl.bypass = G_BYPASS[mi][s]; sl.replace = G_REPLACE[mi][s]; }
                    _ => { sl.duration = du; sl.replace = G_REPLACE[mi][s]; }
                }
            }
            post.slot = sl;
        }
        if kani::any() {
            post.sig = sig_rule(pre.sig, mi);
            signalled = true;
        }
        post.czo = (pre.czo.0 || kani::any(), pre.czo.1 || kani::any());
        kani::assume(tc_post(&pre, &post, changed, mi, S2));
        kani::assume(inv_limit(mi, post.cs, post.limit));
        f.runtime[mi].counter_a = kani::any();
        f.runtime[mi].counter_b = kani::any();
    }
    f.runtime[mi].current_state = post.cs;
    f.runtime[mi].state_limit = post.limit;
    unsafe { core::ptr::write(&mut f.actions[mi], slot_to(post.slot)) };
    f.signal_pending = sig_to(post.sig);
    czo_set(f, mi, post.czo);
    unsafe {
        if signalled {
            if ev == EV_SIGNAL {
                G_RESPONDERS = true;
            } else {
                G_PHASE1[mi] = true;
            }
        }
        G_EXPECT[mi] = post;
        G_COUNTERS[mi] = (f.runtime[mi].counter_a, f.runtime[mi].counter_b);
        G_STEPPED[mi] = true;
        // the documented limit rule: the machine's own completion, reported without a state change,
        // consumes one unit (never below zero); at zero a limited action is withdrawn and LimitReached raised
        if consumes_limit(ev) && ev == G_CUR_EV && mi == G_CUR_ID && !G_OWN_DONE {
            G_OWN_DONE = true;
            if !changed && post.cs != STATE_END {
                let dec = if post.limit > 0 { post.limit - 1 } else { 0 };
                G_EXPECT[mi].limit = dec;
                if dec == 0 && G_KIND[mi][post.cs] >= 2 && G_HAS_LIMIT[mi][post.cs] {
                    G_EXPECT[mi].slot = EMPTY;
                    G_LR_DUE = true;
                }
            }
        }
    }
    if changed {
        StateChange::Changed
    } else {
        StateChange::Unchanged
    }
}

/// idcase: a concrete machine index, 254 = any id that names no machine (>= nm), 255 = any id.
/// (A symbolic id used to index the machine list makes CBMC read the machines' state vectors
/// through a pointer extracted at a symbolic offset, which it cannot resolve; the events whose id
/// is used as an index are therefore case-split on the id, the others keep it symbolic.)
pub(crate) fn any_event(kind: u8, idcase: usize, nm: usize) -> TriggerEvent {
    let raw: usize = if idcase == 255 {
        kani::any()
    } else if idcase == 254 {
        let x: usize = kani::any();
        kani::assume(x >= nm);
        x
    } else {
        idcase
    };
    let m = MachineId::from_raw(raw);
    // kind 255: any of the ten kinds (symbolic); otherwise the case-split value
    let k: u8 = if kind == 255 || kind == 100 { kani::any() } else { kind };
    kani::assume(k < 10);
    // kind 100: one of the four plain kinds (used for two-event batches)
    kani::assume(kind != 100 || k == 0 || k == 1 || k == 2 || k == 5);
    match k {
        0 => TriggerEvent::NormalRecv,
        1 => TriggerEvent::PaddingRecv,
        2 => TriggerEvent::TunnelRecv,
        3 => TriggerEvent::NormalSent,
        4 => TriggerEvent::PaddingSent { machine: m },
        5 => TriggerEvent::TunnelSent,
        6 => TriggerEvent::BlockingBegin { machine: m },
        7 => TriggerEvent::BlockingEnd,
        8 => TriggerEvent::TimerBegin { machine: m },
        _ => TriggerEvent::TimerEnd { machine: m },
    }
}
/// (internal event index, addressed machine or usize::MAX, global?) of a reported event
fn event_info(e: &TriggerEvent) -> (usize, usize, bool) {
    match e {
        TriggerEvent::NormalRecv => (0, usize::MAX, true),
        TriggerEvent::PaddingRecv => (1, usize::MAX, true),
        TriggerEvent::TunnelRecv => (2, usize::MAX, true),
        TriggerEvent::NormalSent => (3, usize::MAX, true),
        TriggerEvent::PaddingSent { machine } => (4, machine.into_raw(), false),
        TriggerEvent::TunnelSent => (5, usize::MAX, true),
        TriggerEvent::BlockingBegin { machine } => (6, machine.into_raw(), true),
        TriggerEvent::BlockingEnd => (7, usize::MAX, true),
        TriggerEvent::TimerBegin { machine } => (10, machine.into_raw(), false),
        TriggerEvent::TimerEnd { machine } => (11, machine.into_raw(), false),
    }
}
fn l2_machine(mi: usize, sarr: &mut [State; S2]) -> Machine {
    const NT: Option<Vec<Trans>> = None;
    let mut s = 0;
    while s < S2 {
        let kind: u8 = kani::any();
        kani::assume(kind <= 4);
        let has_limit: bool = kani::any();
        kani::assume(kind >= 2 || !has_limit);
        let (bypass, replace): (bool, bool) = (kani::any(), kani::any());
        let timer: u8 = kani::any();
        kani::assume(timer <= 2);
        unsafe {
            G_KIND[mi][s] = kind;
            G_HAS_LIMIT[mi][s] = has_limit;
            G_BYPASS[mi][s] = bypass && (kind == 2 || kind == 3);
            G_REPLACE[mi][s] = replace && kind >= 2;
            G_TIMER[mi][s] = if kind == 1 { timer } else { 0 };
        }
        let lim = opt_dist(has_limit);
        let a = unsafe {
            match kind {
                0 => None,
                1 => Some(Action::Cancel { timer: timer_of(G_TIMER[mi][s]) }),
                2 => Some(Action::SendPadding { bypass: G_BYPASS[mi][s], replace: G_REPLACE[mi][s], timeout: dummy_dist(), limit: lim }),
                3 => Some(Action::BlockOutgoing { bypass: G_BYPASS[mi][s], replace: G_REPLACE[mi][s], timeout: dummy_dist(), duration: dummy_dist(), limit: lim }),
                _ => Some(Action::UpdateTimer { replace: G_REPLACE[mi][s], duration: dummy_dist(), limit: lim }),
            }
        };
        unsafe { core::ptr::write(&mut sarr[s], state_from_parts(a, (None, None), [NT; EVENT_NUM])) };
        s += 1;
    }
    Machine {
        allowed_padding_packets: kani::any(),
        max_padding_frac: kani::any(),
        allowed_blocked_microsec: kani::any(),
        max_blocking_frac: kani::any(),
        states: unsafe { vec_over(sarr) },
    }
}

pub(crate) struct Pre2<const M: usize> {
    pub snaps: [Snap; M],
}

/// one call of `trigger_events` with B events and M machines from any Inv-state
pub(crate) fn l2_body<const M: usize, const B: usize>(kind: u8, idcase: usize) {
    set_mode(MODE_L2);
    const NT: Option<Vec<Trans>> = None;
    let mut sarrs: [[State; S2]; M] = core::array::from_fn(|_| core::array::from_fn(|_| state_from_parts(None, (None, None), [NT; EVENT_NUM])));
    let mut i = 0;
    let sp = sarrs.as_mut_ptr();
    let machines: [Machine; M] = core::array::from_fn(|mi| l2_machine(mi, unsafe { &mut *sp.add(mi) }));
    // ---- any Inv pre-state
    let ac = any_acct();
    let extra: u64 = kani::any();
    let mut pads = [0u64; M];
    let mut sum: u64 = extra;
    kani::assume(extra < (1 << 40));
    let mut rts: [MachineRuntime<VT>; M] = core::array::from_fn(|mi| {
        let cs: usize = kani::any();
        kani::assume(cs < S2 || cs == STATE_END);
        let limit: u64 = kani::any();
        kani::assume(inv_limit(mi, cs, limit));
        let p: u64 = kani::any();
        kani::assume(p < (1 << 40));
        let mut rt = runtime_of(&ac, &machines[mi], cs, limit, kani::any(), kani::any());
        rt.padding_sent = p;
        rt.counter_zeroed_once = (kani::any(), kani::any());
        rt
    });
    i = 0;
    while i < M {
        pads[i] = rts[i].padding_sent;
        sum += pads[i];
        i += 1;
    }
    // slots hold whatever the previous call left in them
    let mut slots: [Option<TriggerAction<VT>>; M] = core::array::from_fn(|mi| {
        if kani::any() { None } else { Some(TriggerAction::Cancel { machine: MachineId::from_raw(mi), timer: Timer::Internal }) }
    });
    let mut f = framework_over(&machines, &mut rts, &mut slots, &ac, Tape::any());
    f.padding_sent_packets = sum;
    // signal_pending is consumed by every call: None between calls (Inv)
    let events: [TriggerEvent; B] = core::array::from_fn(|_| any_event(kind, idcase, M));
    let now: u64 = kani::any();

    // ---- ghost: independent recount from the reported event alone (single-event calls: the
    // counts "including that event" are known before the call)
    assert!(B == 1 || (B == 2 && kind == 100));
    let (ev, id, global) = event_info(&events[0]);
    let ev2 = if B == 2 { event_info(&events[B - 1]).0 } else { usize::MAX };
    unsafe {
        G_STEPS = 0;
        G_EVENTS = B;
        G_NORMAL = ac.f_normal;
        G_PAD_GLOBAL = sum;
        G_BLOCK_ACTIVE = ac.f_block_active;
        G_BLOCK_STARTED = ac.f_block_started;
        G_BLOCK_DUR = ac.f_block_dur;
        G_NOW = now;
        G_CUR_EV = ev;
        G_CUR_EV2 = ev2;
        G_CUR_ID = id;
        G_OWN_DONE = false;
        G_LR_DUE = false;
        G_LR_SEEN = false;
        G_RESPONDERS = false;
        G_ROUND_STARTED = false;
        i = 0;
        while i < M {
            G_PAD[i] = pads[i];
            G_EXPECT[i] = Snap { cs: f.runtime[i].current_state, limit: f.runtime[i].state_limit, slot: EMPTY, sig: RSig::None, czo: (false, false) };
            G_COUNTERS[i] = (f.runtime[i].counter_a, f.runtime[i].counter_b);
            G_STEPPED[i] = false;
            G_SIG_GOT[i] = 0;
            G_PHASE1[i] = false;
            i += 1;
        }
        match ev {
            3 => G_NORMAL += 1,
            4 => {
                G_PAD_GLOBAL += 1;
                if id < M {
                    G_PAD[id] += 1;
                }
            }
            6 => {
                if !G_BLOCK_ACTIVE {
                    G_BLOCK_ACTIVE = true;
                    G_BLOCK_STARTED = now;
                }
            }
            7 => {
                if G_BLOCK_ACTIVE {
                    G_BLOCK_DUR = G_BLOCK_DUR.saturating_add(now.saturating_sub(G_BLOCK_STARTED));
                    G_BLOCK_ACTIVE = false;
                }
            }
            _ => {}
        }
    }
    let pre_end: [bool; M] = core::array::from_fn(|mi| f.runtime[mi].current_state == STATE_END);

    // ---- the call
    let mut n_items = 0usize;
    let mut ids_ok = true;
    let mut seen = [false; M];
    for a in f.trigger_events(&events, VT(now)) {
        let sl = slot_of(&Some(a.clone()));
        n_items += 1;
        if sl.machine < M && !seen[sl.machine] {
            seen[sl.machine] = true;
        } else {
            ids_ok = false;
        }
    }

    // ---- after the call
    let n = unsafe { G_STEPS };
    assert!(n_items <= M && ids_ok, "C04: at most one action per machine, each naming a distinct machine that exists");
    assert!(!unsafe { G_LR_DUE }, "C07(b): LimitReached must be raised before the call returns when a completion exhausted the limit");
    let mut some_slots = 0;
    i = 0;
    while i < M {
        let rt = &f.runtime[i];
        let sl = slot_of(&f.actions[i]);
        unsafe {
            assert!(sl == G_EXPECT[i].slot,
                "C04/C10: an action is returned only if a step of that machine scheduled it in this call and it was not withdrawn (slots are reset at the start of a call)");
            assert!(rt.normal_sent == G_NORMAL && rt.padding_sent == G_PAD[i], "C02: after the call the machine's packet counts are the recount of all reports");
            assert!(rt.blocking_duration == VD(G_BLOCK_DUR) && rt.machine_start == VT(ac.start), "C03: after the call every machine is charged the framework's blocked time");
            assert!(rt.current_state == G_EXPECT[i].cs && (rt.counter_a, rt.counter_b) == G_COUNTERS[i],
                "C10: outside its own steps a machine's state and counters never change");
            assert!(rt.state_limit == G_EXPECT[i].limit,
                "C07(c)/C10: a machine's limit is consumed only by its own completions: one unit each, never for other machines or unknown ids");
        }
        if sl.kind != 0 {
            some_slots += 1;
            assert!(slot_wf(&sl, i), "C04: the returned action names its own machine and carries durations of at most 24 hours");
            assert!(seen[i], "C04: every scheduled action is returned");
        }
        if pre_end[i] {
            assert!(sl.kind == 0 && rt.current_state == STATE_END, "C04: a machine that has reached its end state never yields an action in any later call");
        }
        assert!(rt.current_state < S2 || rt.current_state == STATE_END, "C01: every machine is in one of its states or has ended (Inv)");
        i += 1;
    }
    assert!(some_slots == n_items, "C04: exactly the scheduled actions are returned");
    if M == 0 {
        assert!(n_items == 0 && n == 0, "C04: a framework without machines never returns an action");
    }
    unsafe {
        assert!(f.normal_sent_packets == G_NORMAL && f.padding_sent_packets == G_PAD_GLOBAL,
            "C02: after the call the framework-wide packet counts are the recount of all reports");
        assert!(f.blocking_active == G_BLOCK_ACTIVE && f.blocking_duration == VD(G_BLOCK_DUR)
            && (!G_BLOCK_ACTIVE || f.blocking_started == VT(G_BLOCK_STARTED)),
            "C03: after the call the blocked time is measured from the BlockingBegin/BlockingEnd reports and the call timestamps");
        assert!(f.current_time == VT(now) && f.framework_start == VT(ac.start), "C03: the framework remembers the time of the call and its start");
        assert!(f.signal_pending.is_none(), "C09: a signal raised during a call is delivered (or dropped) before the call returns, never carried into the next call");
    }
    if !global && id >= M {
        assert!(n == 0, "C01: an event naming a machine that does not exist is accounted for but delivered to nobody");
    }
    if global {
        // a global event (BlockingBegin included, whatever id it carries) steps every machine once (plus the signal round)
        i = 0;
        while i < M {
            assert!(unsafe { G_STEPPED[i] }, "C05: a global event is delivered to every machine");
            i += 1;
        }
    }
    let ended: [bool; M] = core::array::from_fn(|mi| f.runtime[mi].current_state == STATE_END);
    c09_signals::<M>(&ended);
    // reachability witness (vacuity guard), chosen per case-split instance
    let witness = if !global && id >= M {
        n == 0 && now < ac.now
    } else if consumes_limit(ev) && M > 0 {
        let seen_lr = unsafe { G_LR_SEEN };
        seen_lr && n_items == M
    } else if M > 0 {
        n_items == M && now < ac.now
    } else {
        now < ac.now
    };
    kani::cover!(witness, "instance witness: every machine returned an action (with LimitReached raised for completions), or nothing was delivered for an unknown id; clock ran backwards");
    core::mem::forget(f);
    core::mem::forget(machines);
    core::mem::forget(sarrs);
}

/// C09 on the ghost record of Signal deliveries
fn c09_signals<const M: usize>(ended: &[bool; M]) {
    let mut nsig = 0;
    let mut lone = usize::MAX;
    let mut i = 0;
    while i < M {
        if unsafe { G_PHASE1[i] } {
            nsig += 1;
            lone = i;
        }
        i += 1;
    }
    let responders = unsafe { G_RESPONDERS };
    i = 0;
    while i < M {
        let got = unsafe { G_SIG_GOT[i] };
        assert!(got <= 1, "C09: no machine ever receives more than one Signal per call");
        if ended[i] {
            // a machine that has ended may be skipped
        } else if nsig == 0 {
            assert!(got == 0, "C09: without a signalling machine no Signal is delivered");
        } else if nsig == 1 {
            if i != lone {
                assert!(got == 1, "C09: every machine other than the lone signaller receives exactly one Signal before the call returns");
            } else if responders {
                assert!(got == 1, "C09: a lone signaller receives one Signal when a machine answers the delivered signal by signalling");
            } else {
                assert!(got == 0, "C09: the lone signalling machine receives no Signal");
            }
        } else {
            assert!(got == 1, "C09: when two or more distinct machines signal, every machine receives exactly one Signal");
        }
        i += 1;
    }
    if M >= 2 {
        let nothing = unsafe { G_STEPS == 0 };
        kani::cover!((nsig == 1 && responders) || nothing, "lone signaller answered by another machine (or nothing delivered)");
    }
}

macro_rules! l2 {
    ($name:ident, $m:expr, $kind:expr, $idcase:expr) => {
        #[kani::proof]
        #[kani::unwind(5)]
        #[kani::stub(Framework::transition, transition_tc)]
        fn $name() {
            l2_body::<$m, 1>($kind, $idcase);
        }
    };
}
l2!(l2_m0, 0, 255, 255);
macro_rules! l2b {
    ($name:ident, $m:expr) => {
        #[kani::proof]
        #[kani::unwind(5)]
        #[kani::stub(Framework::transition, transition_tc)]
        fn $name() {
            l2_body::<$m, 2>(100, 255);
        }
    };
}
l2b!(l2_batch2_m1, 1);
l2b!(l2_batch2_m2, 2);
// global events (and BlockingBegin, whose id is only compared): id symbolic
l2!(l2_m1_e0, 1, 0, 255);
l2!(l2_m1_e1, 1, 1, 255);
l2!(l2_m1_e2, 1, 2, 255);
l2!(l2_m1_e3, 1, 3, 255);
l2!(l2_m1_e5, 1, 5, 255);
l2!(l2_m1_e6, 1, 6, 255);
l2!(l2_m1_e7, 1, 7, 255);
l2!(l2_m2_e0, 2, 0, 255);
l2!(l2_m2_e1, 2, 1, 255);
l2!(l2_m2_e2, 2, 2, 255);
l2!(l2_m2_e3, 2, 3, 255);
l2!(l2_m2_e5, 2, 5, 255);
l2!(l2_m2_e6, 2, 6, 255);
l2!(l2_m2_e7, 2, 7, 255);
l2!(l2_m3_e0, 3, 0, 255);
l2!(l2_m3_e1, 3, 1, 255);
l2!(l2_m3_e2, 3, 2, 255);
l2!(l2_m3_e3, 3, 3, 255);
l2!(l2_m3_e5, 3, 5, 255);
l2!(l2_m3_e6, 3, 6, 255);
l2!(l2_m3_e7, 3, 7, 255);
// events whose id selects the machine: one instance per machine plus "unknown id"
l2!(l2_m1_e4_i0, 1, 4, 0);
l2!(l2_m1_e4_iu, 1, 4, 254);
l2!(l2_m1_e8_i0, 1, 8, 0);
l2!(l2_m1_e8_iu, 1, 8, 254);
l2!(l2_m1_e9_i0, 1, 9, 0);
l2!(l2_m1_e9_iu, 1, 9, 254);
l2!(l2_m2_e4_i0, 2, 4, 0);
l2!(l2_m2_e4_i1, 2, 4, 1);
l2!(l2_m2_e4_iu, 2, 4, 254);
l2!(l2_m2_e8_i0, 2, 8, 0);
l2!(l2_m2_e8_i1, 2, 8, 1);
l2!(l2_m2_e8_iu, 2, 8, 254);
l2!(l2_m2_e9_i0, 2, 9, 0);
l2!(l2_m2_e9_i1, 2, 9, 1);
l2!(l2_m2_e9_iu, 2, 9, 254);
l2!(l2_m3_e4_i0, 3, 4, 0);
l2!(l2_m3_e4_i1, 3, 4, 1);
l2!(l2_m3_e4_i2, 3, 4, 2);
l2!(l2_m3_e4_iu, 3, 4, 254);
l2!(l2_m3_e8_i0, 3, 8, 0);
l2!(l2_m3_e8_i1, 3, 8, 1);
l2!(l2_m3_e8_i2, 3, 8, 2);
l2!(l2_m3_e8_iu, 3, 8, 254);
l2!(l2_m3_e9_i0, 3, 9, 0);
l2!(l2_m3_e9_i1, 3, 9, 1);
l2!(l2_m3_e9_i2, 3, 9, 2);
l2!(l2_m3_e9_iu, 3, 9, 254);
