//! Framework harnesses (child module of maybenot::framework, cfg(kani) only): shared environment
//! models, machine families over typed buffers, the reference semantics and the contracts.
//! Levels (DESIGN.md 2.5): L0 kernels, L1 = one `transition`, L2 = `trigger_events` over the
//! transition contract.
use super::*;
use crate::action::{Action, Timer};
use crate::counter::{Counter, Operation};
use crate::dist::{Dist, DistType};
use crate::state::verif_kani::{state_from_parts, vec_over};
use crate::state::{State, Trans};
use crate::constants::EVENT_NUM;

pub(crate) const DAY_US: u64 = 86_400_000_000;
pub(crate) const EV_LIMIT: usize = 8;
pub(crate) const EV_ZERO: usize = 9;
pub(crate) const EV_SIGNAL: usize = 12;

// ------------------------------------------------------------------------------------------
// environment: virtual clock (any value in any order), random tape (any word at any position)
// ------------------------------------------------------------------------------------------
#[derive(Clone, Copy, Debug, PartialEq, Eq)]
pub struct VT(pub u64);
#[derive(Clone, Copy, Debug, PartialEq, Eq, PartialOrd)]
pub struct VD(pub u64);
impl core::ops::AddAssign for VD {
    fn add_assign(&mut self, o: VD) {
        self.0 = self.0.saturating_add(o.0);
    }
}
impl crate::time::Duration for VD {
    fn zero() -> Self {
        VD(0)
    }
    fn from_micros(m: u64) -> Self {
        VD(m)
    }
    fn is_zero(&self) -> bool {
        self.0 == 0
    }
    fn div_duration_f64(self, rhs: Self) -> f64 {
        self.0 as f64 / rhs.0 as f64
    }
}
impl crate::time::Instant for VT {
    type Duration = VD;
    fn saturating_duration_since(&self, e: Self) -> VD {
        VD(self.0.saturating_sub(e.0))
    }
}

pub(crate) const T32: usize = 4;
pub(crate) const T64: usize = 16;
/// Random tape: every word is symbolic; the cursors meter the work and make two runs comparable
/// draw for draw. Running off the tape is an explicit (replayable) assertion.
#[derive(Clone, Copy)]
pub(crate) struct Tape {
    pub w32: [u32; T32],
    pub w64: [u64; T64],
    pub c32: usize,
    pub c64: usize,
}
impl Tape {
    pub(crate) fn any() -> Self {
        Tape { w32: kani::any(), w64: kani::any(), c32: 0, c64: 0 }
    }
}
impl RngCore for Tape {
    fn next_u32(&mut self) -> u32 {
        assert!(self.c32 < T32, "C01: work bound exceeded: more state draws in one machine step than the tape holds");
        let v = self.w32[self.c32];
        self.c32 += 1;
        v
    }
    fn next_u64(&mut self) -> u64 {
        assert!(self.c64 < T64, "C01: work bound exceeded: more distribution draws in one machine step than the tape holds");
        let v = self.w64[self.c64];
        self.c64 += 1;
        v
    }
    fn fill_bytes(&mut self, _d: &mut [u8]) {
        panic!("C05: fill_bytes is never used by the framework");
    }
    fn try_fill_bytes(&mut self, _d: &mut [u8]) -> Result<(), rand_core::Error> {
        panic!("C05: try_fill_bytes is never used by the framework");
    }
}

// ------------------------------------------------------------------------------------------
// leaf contracts (proved for the real functions by the L0 kernels in dist_kani.rs, assumed at L1)
// ------------------------------------------------------------------------------------------
pub(crate) fn sample_timeout_c<R: RngCore>(a: &Action, rng: &mut R) -> u64 {
    match a {
        Action::SendPadding { .. } | Action::BlockOutgoing { .. } => {
            let v = rng.next_u64();
            kani::assume(v <= DAY_US);
            v
        }
        _ => 0,
    }
}
pub(crate) fn sample_duration_c<R: RngCore>(a: &Action, rng: &mut R) -> u64 {
    match a {
        Action::BlockOutgoing { .. } | Action::UpdateTimer { .. } => {
            let v = rng.next_u64();
            kani::assume(v <= DAY_US);
            v
        }
        _ => 0,
    }
}
pub(crate) fn sample_limit_c<R: RngCore>(a: &Action, rng: &mut R) -> u64 {
    let has = match a {
        Action::SendPadding { limit, .. } | Action::BlockOutgoing { limit, .. } | Action::UpdateTimer { limit, .. } => limit.is_some(),
        _ => false,
    };
    if has {
        rng.next_u64()
    } else {
        u64::MAX
    }
}
pub(crate) fn sample_value_c<R: RngCore>(c: &Counter, rng: &mut R) -> u64 {
    match c.dist {
        None => 1,
        Some(_) => rng.next_u64(),
    }
}
/// Limit contract used at L1: during one machine step the accounting does not change (frame
/// condition, asserted at L1), so "below the limits" factors into `state_limit > 0` and one
/// boolean per action kind that is constant for the step. The L0 kernels k_below_* prove that the
/// real predicates have exactly this form with the statement's budget/fraction rules as the constant.
pub(crate) static mut G_PAD_OK: bool = false;
pub(crate) static mut G_BLOCK_OK: [bool; 2] = [false, false];
pub(crate) fn limits_c(action: Option<Action>, limit: u64) -> bool {
    match action {
        None => false,
        Some(Action::Cancel { .. }) => true,
        Some(Action::UpdateTimer { .. }) => limit > 0,
        Some(Action::SendPadding { .. }) => limit > 0 && unsafe { G_PAD_OK },
        Some(Action::BlockOutgoing { replace, .. }) => limit > 0 && unsafe { G_BLOCK_OK[replace as usize] },
    }
}
pub(crate) fn below_action_limits_c<M, R, T>(_this: &Framework<M, R, T>, runtime: &MachineRuntime<T>, machine: &Machine) -> bool
where
    M: AsRef<[Machine]>,
    R: RngCore,
    T: crate::time::Instant,
{
    limits_c(machine.states[runtime.current_state].action, runtime.state_limit)
}
// native-replay hooks (cfg(verif_replay_stub) only, see engine/scratch.py and export.rs)
use crate::verif::{leaf_contracts_on, mode, set_mode, MODE_L1A, MODE_L1B, MODE_L2};
pub(crate) fn replay_limits_hook<M, R, T>(this: &Framework<M, R, T>, runtime: &MachineRuntime<T>, machine: &Machine) -> Option<bool>
where
    M: AsRef<[Machine]>,
    R: RngCore,
    T: crate::time::Instant,
{
    if leaf_contracts_on() { Some(below_action_limits_c(this, runtime, machine)) } else { None }
}
pub(crate) fn replay_timeout_hook<R: RngCore>(a: &Action, rng: &mut R) -> Option<u64> {
    if leaf_contracts_on() { Some(sample_timeout_c(a, rng)) } else { None }
}
pub(crate) fn replay_duration_hook<R: RngCore>(a: &Action, rng: &mut R) -> Option<u64> {
    if leaf_contracts_on() { Some(sample_duration_c(a, rng)) } else { None }
}
pub(crate) fn replay_limit_hook<R: RngCore>(a: &Action, rng: &mut R) -> Option<u64> {
    if crate::verif::limit_contract_on() { Some(sample_limit_c(a, rng)) } else { None }
}
pub(crate) fn replay_value_hook<R: RngCore>(c: &Counter, rng: &mut R) -> Option<u64> {
    if leaf_contracts_on() { Some(sample_value_c(c, rng)) } else { None }
}
pub(crate) fn replay_transition_hook<M, R, T>(this: &mut Framework<M, R, T>, mi: usize, event: Event) -> Option<StateChange>
where
    M: AsRef<[Machine]>,
    R: RngCore,
    T: crate::time::Instant,
{
    match mode() {
        MODE_L1B => Some(match crate::verif::family() {
            22 => fam22::transition_ref(this, mi, event),
            32 => fam32::transition_ref(this, mi, event),
            _ => fam21::transition_ref(this, mi, event),
        }),
        MODE_L2 => Some(l2::transition_tc(this, mi, event)),
        crate::verif::MODE_ANY_ACTION => Some(crate::verif::transition_any_action(this, mi, event)),
        _ => None,
    }
}
pub(crate) fn replay_update_counter_hook<M, R, T>(this: &mut Framework<M, R, T>, mi: usize) -> Option<(bool, bool)>
where
    M: AsRef<[Machine]>,
    R: RngCore,
    T: crate::time::Instant,
{
    if mode() == MODE_L1A {
        Some(match crate::verif::family() {
            22 => fam22::update_counter_ref(this, mi),
            32 => fam32::update_counter_ref(this, mi),
            _ => fam21::update_counter_ref(this, mi),
        })
    } else {
        None
    }
}

/// ghost record of what the any-action stub wrote for machines 0..4 in the current harness
/// (kind 0 none, 1 cancel, 2 padding, 3 blocking, 4 timer)
#[derive(Clone, Copy)]
pub struct AnyAction {
    pub kind: u8,
    pub timeout_us: u64,
    pub duration_us: u64,
    pub bypass: bool,
    pub replace: bool,
    pub timer: u8,
}
pub static mut AA_LAST: [AnyAction; 4] = [AnyAction { kind: 0, timeout_us: 0, duration_us: 0, bypass: false, replace: false, timer: 0 }; 4];
pub static mut AA_CALLS: usize = 0;
/// the timeout / duration values of the last written action as the caller's own duration type
/// (raw bytes: the stub is generic over the clock; the harness knows the concrete type)
pub static mut AA_TIMEOUT_BYTES: [u8; 16] = [0; 16];
pub static mut AA_DURATION_BYTES: [u8; 16] = [0; 16];
pub fn aa_timeout<D: Copy>() -> D {
    assert!(core::mem::size_of::<D>() <= 16);
    unsafe { core::ptr::read_unaligned(AA_TIMEOUT_BYTES.as_ptr() as *const D) }
}
pub fn aa_duration<D: Copy>() -> D {
    assert!(core::mem::size_of::<D>() <= 16);
    unsafe { core::ptr::read_unaligned(AA_DURATION_BYTES.as_ptr() as *const D) }
}
pub fn aa_last(mi: usize) -> AnyAction {
    unsafe { AA_LAST[mi] }
}
pub fn aa_calls() -> usize {
    unsafe { AA_CALLS }
}
/// see export.rs: any well-formed action (or none) is written into the slot of machine `mi`
pub fn transition_any_action_impl<M, R, T>(this: &mut Framework<M, R, T>, mi: usize, _event: Event) -> StateChange
where
    M: AsRef<[Machine]>,
    R: RngCore,
    T: crate::time::Instant,
{
    assert!(mi < this.actions.len() && mi < 4, "C01: a machine step is only ever taken for a machine that exists");
    let to: u64 = kani::any();
    let du: u64 = kani::any();
    kani::assume(to <= DAY_US && du <= DAY_US);
    let m = MachineId::from_raw(mi);
    let k: u8 = kani::any();
    kani::assume(k < 5);
    let (bypass, replace): (bool, bool) = (kani::any(), kani::any());
    let t: u8 = kani::any();
    kani::assume(t < 3);
    unsafe {
        AA_CALLS += 1;
        AA_LAST[mi] = AnyAction { kind: k, timeout_us: to, duration_us: du, bypass, replace, timer: t };
    }
    let timeout = T::Duration::from_micros(to);
    let duration = T::Duration::from_micros(du);
    unsafe {
        assert!(core::mem::size_of::<T::Duration>() <= 16);
        core::ptr::write_unaligned(AA_TIMEOUT_BYTES.as_mut_ptr() as *mut T::Duration, timeout);
        core::ptr::write_unaligned(AA_DURATION_BYTES.as_mut_ptr() as *mut T::Duration, duration);
    }
    this.actions[mi] = match k {
        0 => None,
        1 => Some(TriggerAction::Cancel { machine: m, timer: timer_of(t) }),
        2 => Some(TriggerAction::SendPadding { timeout, bypass, replace, machine: m }),
        3 => Some(TriggerAction::BlockOutgoing { timeout, duration, bypass, replace, machine: m }),
        _ => Some(TriggerAction::UpdateTimer { duration, replace, machine: m }),
    };
    StateChange::Unchanged
}
/// unchecked constructor for the harnesses of the dependent crates (Framework::new validates the
/// machines through hashbrown / SipHash, which is out of reach as mere set-up; C12 decides it)
pub fn new_unchecked_impl<M, R, T>(machines: M, t0: T, rng: R) -> Framework<M, R, T>
where
    M: AsRef<[Machine]>,
    R: RngCore,
    T: crate::time::Instant,
{
    let n = machines.as_ref().len();
    let mut runtime = Vec::with_capacity(n);
    let mut i = 0;
    while i < n {
        runtime.push(MachineRuntime {
            current_state: 0,
            state_limit: u64::MAX,
            padding_sent: 0,
            normal_sent: 0,
            blocking_duration: T::Duration::zero(),
            machine_start: t0,
            allowed_blocked_microsec: T::Duration::from_micros(machines.as_ref()[i].allowed_blocked_microsec),
            counter_a: 0,
            counter_b: 0,
            counter_zeroed_once: (false, false),
        });
        i += 1;
    }
    Framework {
        current_time: t0,
        rng,
        actions: vec![None; n],
        machines,
        runtime,
        max_padding_frac: 0.0,
        normal_sent_packets: 0,
        padding_sent_packets: 0,
        max_blocking_frac: 0.0,
        blocking_duration: T::Duration::zero(),
        blocking_started: t0,
        blocking_active: false,
        signal_pending: None,
        framework_start: t0,
    }
}

// ------------------------------------------------------------------------------------------
// small generators shared by all levels
// ------------------------------------------------------------------------------------------
pub(crate) fn dummy_dist() -> Dist {
    // parameters are irrelevant at L1/L2: the samplers are abstracted by the leaf contracts
    Dist { dist: DistType::Uniform { low: 0.0, high: 0.0 }, start: 0.0, max: 0.0 }
}
pub(crate) fn opt_dist(has: bool) -> Option<Dist> {
    if has {
        Some(dummy_dist())
    } else {
        None
    }
}
fn any_opt_dist() -> Option<Dist> {
    opt_dist(kani::any())
}
pub(crate) fn timer_of(t: u8) -> Timer {
    match t {
        0 => Timer::Action,
        1 => Timer::Internal,
        _ => Timer::All,
    }
}
pub(crate) fn timer_ix(t: Timer) -> u8 {
    match t {
        Timer::Action => 0,
        Timer::Internal => 1,
        Timer::All => 2,
    }
}
pub(crate) fn any_timer() -> Timer {
    timer_of(kani::any::<u8>() % 3)
}
pub(crate) fn real_frac(x: f64) -> bool {
    x >= 0.0 && x <= 1.0
}

// ------------------------------------------------------------------------------------------
// accounting seen (read only) by one machine step
// ------------------------------------------------------------------------------------------
#[derive(Clone, Copy)]
pub(crate) struct Acct {
    pub now: u64,
    pub start: u64,
    pub f_normal: u64,
    pub f_padding: u64,
    pub f_block_dur: u64,
    pub f_block_started: u64,
    pub f_block_active: bool,
    pub f_pad_frac: f64,
    pub f_block_frac: f64,
    pub m_padding: u64,
}
pub(crate) fn any_acct() -> Acct {
    let a = Acct {
        now: kani::any(),
        start: kani::any(),
        f_normal: kani::any(),
        f_padding: kani::any(),
        f_block_dur: kani::any(),
        f_block_started: kani::any(),
        f_block_active: kani::any(),
        f_pad_frac: kani::any(),
        f_block_frac: kani::any(),
        m_padding: kani::any(),
    };
    // Inv: fractions validated; packet counters below 2^63 (DESIGN.md 2.4); a machine's paddings are part of the total
    kani::assume(real_frac(a.f_pad_frac) && real_frac(a.f_block_frac));
    kani::assume(a.f_normal < (1 << 63) && a.f_padding < (1 << 63) && a.m_padding <= a.f_padding);
    a
}

#[derive(Clone, Copy, PartialEq, Eq)]
pub(crate) enum RSig {
    None,
    All,
    AllExcept(usize),
}
pub(crate) fn sig_of(s: &Option<SignalTarget>) -> RSig {
    match s {
        None => RSig::None,
        Some(SignalTarget::All) => RSig::All,
        Some(SignalTarget::AllExcept(x)) => RSig::AllExcept(*x),
    }
}
pub(crate) fn sig_to(s: RSig) -> Option<SignalTarget> {
    match s {
        RSig::None => None,
        RSig::All => Some(SignalTarget::All),
        RSig::AllExcept(x) => Some(SignalTarget::AllExcept(x)),
    }
}
pub(crate) fn any_sig(m: usize) -> RSig {
    match kani::any::<u8>() % 3 {
        0 => RSig::None,
        1 => RSig::All,
        _ => {
            let x: usize = kani::any();
            kani::assume(x < m);
            RSig::AllExcept(x)
        }
    }
}
/// the documented signalling rule: the first signaller is excluded, the same signaller stays
/// excluded however many times it signals, a second distinct signaller turns it into "all"
pub(crate) fn sig_rule(s: RSig, mi: usize) -> RSig {
    match s {
        RSig::None => RSig::AllExcept(mi),
        RSig::AllExcept(x) if x == mi => RSig::AllExcept(mi),
        _ => RSig::All,
    }
}

// ---- the statement-level limit predicates (C02, C03, C07(d)) ----
pub(crate) fn frac_below(part: f64, total: f64, frac: f64) -> bool {
    // "if set": a fraction of 0 means no limit; a fraction over zero counts as below
    frac == 0.0 || !(part / total >= frac)
}
pub(crate) fn ref_padding_ok(m_padding: u64, m_normal: u64, allowed: u64, m_frac: f64, f_padding: u64, f_normal: u64, f_frac: f64, limit: u64) -> bool {
    if limit == 0 {
        return false;
    }
    if m_padding < allowed {
        return true;
    }
    let own_total = m_normal + m_padding;
    let own_below = own_total == 0 || frac_below(m_padding as f64, own_total as f64, m_frac);
    let total = f_normal + f_padding;
    let global_below = total == 0 || frac_below(f_padding as f64, total as f64, f_frac);
    own_below && global_below
}
pub(crate) fn ref_blocking_ok(ac: &Acct, allowed_us: u64, m_frac: f64, limit: u64, replace: bool) -> bool {
    if limit == 0 {
        return false;
    }
    if replace && ac.f_block_active {
        return true;
    }
    let ongoing = if ac.f_block_active { ac.now.saturating_sub(ac.f_block_started) } else { 0 };
    // every machine is blocked exactly as long as the framework (Inv)
    let blocked = ac.f_block_dur.saturating_add(ongoing);
    if blocked < allowed_us {
        return true;
    }
    let since_start = ac.now.saturating_sub(ac.start);
    frac_below(blocked as f64, since_start as f64, m_frac) && frac_below(blocked as f64, since_start as f64, ac.f_block_frac)
}

// ------------------------------------------------------------------------------------------
// L0: the limit predicates against the statement (C02, C03, C07(d))
// ------------------------------------------------------------------------------------------
fn one_state_machine(action: Option<Action>, sarr: &mut [State; 1], allowed_p: u64, pf: f64, allowed_b: u64, bf: f64) -> Machine {
    const NT: Option<Vec<Trans>> = None;
    unsafe { core::ptr::write(&mut sarr[0], state_from_parts(action, (None, None), [NT; EVENT_NUM])) };
    Machine {
        allowed_padding_packets: allowed_p,
        max_padding_frac: pf,
        allowed_blocked_microsec: allowed_b,
        max_blocking_frac: bf,
        states: unsafe { vec_over(sarr) },
    }
}
pub(crate) type FW<'a> = Framework<&'a [Machine], Tape, VT>;
pub(crate) fn framework_over<'a, const M: usize>(
    machines: &'a [Machine; M],
    rts: &mut [MachineRuntime<VT>; M],
    slots: &mut [Option<TriggerAction<VT>>; M],
    ac: &Acct,
    tape: Tape,
) -> FW<'a> {
    Framework {
        current_time: VT(ac.now),
        rng: tape,
        actions: unsafe { vec_over(slots) },
        machines: &machines[..],
        runtime: unsafe { vec_over(rts) },
        max_padding_frac: ac.f_pad_frac,
        normal_sent_packets: ac.f_normal,
        padding_sent_packets: ac.f_padding,
        max_blocking_frac: ac.f_block_frac,
        blocking_duration: VD(ac.f_block_dur),
        blocking_started: VT(ac.f_block_started),
        blocking_active: ac.f_block_active,
        signal_pending: None,
        framework_start: VT(ac.start),
    }
}
/// the "zeroed once in this call" flags of machine `mi` (per statement: per counter of that machine)
pub(crate) fn czo_get(f: &FW<'_>, mi: usize) -> (bool, bool) {
    f.runtime[mi].counter_zeroed_once
}
pub(crate) fn czo_set(f: &mut FW<'_>, mi: usize, v: (bool, bool)) {
    f.runtime[mi].counter_zeroed_once = v;
}
/// set the flags of two machines: machine 0 zeroed `a`, machine 1 zeroed `b` earlier in this call
pub(crate) fn czo_set_pair(f: &mut FW<'_>, a: (bool, bool), b: (bool, bool)) {
    f.runtime[0].counter_zeroed_once = a;
    f.runtime[1].counter_zeroed_once = b;
}
pub(crate) fn runtime_of(ac: &Acct, m: &Machine, cs: usize, limit: u64, ca: u64, cb: u64) -> MachineRuntime<VT> {
    MachineRuntime {
        current_state: cs,
        state_limit: limit,
        padding_sent: ac.m_padding,
        normal_sent: ac.f_normal,
        blocking_duration: VD(ac.f_block_dur),
        machine_start: VT(ac.start),
        allowed_blocked_microsec: VD(m.allowed_blocked_microsec),
        counter_a: ca,
        counter_b: cb,
        counter_zeroed_once: (false, false),
    }
}
const NO_STATE: Option<State> = None;

#[kani::proof]
#[kani::unwind(3)]
fn k_below_padding() {
    let ac = any_acct();
    let allowed: u64 = kani::any();
    let pf: f64 = kani::any();
    kani::assume(real_frac(pf));
    let limit: u64 = kani::any();
    let a = Action::SendPadding { bypass: kani::any(), replace: kani::any(), timeout: dummy_dist(), limit: any_opt_dist() };
    const NT: Option<Vec<Trans>> = None;
    let mut sarr = [state_from_parts(None, (None, None), [NT; EVENT_NUM])];
    let machines = [one_state_machine(Some(a), &mut sarr, allowed, pf, kani::any(), 0.0)];
    let mut rts = [runtime_of(&ac, &machines[0], 0, limit, 0, 0)];
    let mut slots = [None];
    let f = framework_over(&machines, &mut rts, &mut slots, &ac, Tape::any());
    let got = f.below_limit_padding(&f.runtime[0], &machines[0]);
    let want = ref_padding_ok(ac.m_padding, ac.f_normal, allowed, pf, ac.f_padding, ac.f_normal, ac.f_pad_frac, limit);
    if got {
        assert!(limit > 0, "C07(d): a padding action is allowed although the state limit is zero");
        assert!(want, "C02: padding allowed although neither the machine budget nor both fraction limits permit it");
    } else {
        assert!(!want, "C05: padding denied although the documented limits permit it");
    }
    assert!(f.below_action_limits(&f.runtime[0], &machines[0]) == got, "C02: the padding predicate is the one applied to padding actions");
    kani::cover!(got && ac.m_padding >= allowed && pf > 0.0 && ac.f_pad_frac > 0.0, "allowed below both fractions");
    kani::cover!(!got && limit > 0 && ac.m_padding >= allowed, "denied by a fraction");
    kani::cover!(got && ac.m_padding + ac.f_normal == 0, "fraction over zero packets counts as below");
    core::mem::forget(f);
    core::mem::forget(machines);
    core::mem::forget(sarr);
}

/// experiment: only the machine's own fraction is set (one float division on each side)
#[kani::proof]
#[kani::unwind(3)]
fn k_below_padding_own() {
    let mut ac = any_acct();
    ac.f_pad_frac = 0.0;
    let allowed: u64 = kani::any();
    let pf: f64 = kani::any();
    kani::assume(real_frac(pf));
    kani::assume(ac.m_padding >= allowed);
    let limit: u64 = kani::any();
    let a = Action::SendPadding { bypass: kani::any(), replace: kani::any(), timeout: dummy_dist(), limit: any_opt_dist() };
    const NT: Option<Vec<Trans>> = None;
    let mut sarr = [state_from_parts(None, (None, None), [NT; EVENT_NUM])];
    let machines = [one_state_machine(Some(a), &mut sarr, allowed, pf, kani::any(), 0.0)];
    let mut rts = [runtime_of(&ac, &machines[0], 0, limit, 0, 0)];
    let mut slots = [None];
    let f = framework_over(&machines, &mut rts, &mut slots, &ac, Tape::any());
    let got = f.below_limit_padding(&f.runtime[0], &machines[0]);
    let want = ref_padding_ok(ac.m_padding, ac.f_normal, allowed, pf, ac.f_padding, ac.f_normal, 0.0, limit);
    assert!(got == want, "C02: own fraction");
    core::mem::forget(f);
    core::mem::forget(machines);
    core::mem::forget(sarr);
}

#[kani::proof]
#[kani::unwind(3)]
fn k_below_blocking() {
    let ac = any_acct();
    let allowed: u64 = kani::any();
    let bf: f64 = kani::any();
    kani::assume(real_frac(bf));
    let limit: u64 = kani::any();
    let replace: bool = kani::any();
    let a = Action::BlockOutgoing { bypass: kani::any(), replace, timeout: dummy_dist(), duration: dummy_dist(), limit: any_opt_dist() };
    const NT: Option<Vec<Trans>> = None;
    let mut sarr = [state_from_parts(None, (None, None), [NT; EVENT_NUM])];
    let machines = [one_state_machine(Some(a), &mut sarr, kani::any(), 0.0, allowed, bf)];
    let mut rts = [runtime_of(&ac, &machines[0], 0, limit, 0, 0)];
    let mut slots = [None];
    let f = framework_over(&machines, &mut rts, &mut slots, &ac, Tape::any());
    let got = f.below_limit_blocking(&f.runtime[0], &machines[0]);
    let want = ref_blocking_ok(&ac, allowed, bf, limit, replace);
    if got {
        assert!(limit > 0, "C07(d): a blocking action is allowed although the state limit is zero");
        assert!(want, "C03: blocking allowed although it neither replaces active blocking nor stays within the budget or both fraction limits");
    } else {
        assert!(!want, "C05: blocking denied although the documented limits permit it");
    }
    assert!(f.below_action_limits(&f.runtime[0], &machines[0]) == got, "C03: the blocking predicate is the one applied to blocking actions");
    kani::cover!(got && replace && ac.f_block_active, "replace while active");
    kani::cover!(got && !ac.f_block_active && ac.f_block_dur >= allowed && bf > 0.0 && ac.f_block_frac > 0.0, "allowed below both fractions");
    kani::cover!(!got && limit > 0, "denied by a limit");
    kani::cover!(got && ac.now < ac.start, "clock ran backwards");
    core::mem::forget(f);
    core::mem::forget(machines);
    core::mem::forget(sarr);
}

/// The padding predicate against the statement for ALL fractions, budgets and limits, with the
/// packet counts case-split over every combination of small concrete values (0..=2 own paddings,
/// 0..=2 normal packets, 0..=2 paddings of other machines): with concrete operands the two f64
/// quotients fold to constants, so the solver decides the comparisons against the symbolic
/// fractions (boundaries such as 1/2 vs 0.5 included) without a division circuit. (With symbolic
/// counts the equivalence of two f64 dividers does not finish: k_below_padding, > 15 min.)
#[kani::proof]
#[kani::unwind(4)]
fn k_below_padding_small() {
    let allowed: u64 = kani::any();
    let pf: f64 = kani::any();
    let ff: f64 = kani::any();
    kani::assume(real_frac(pf) && real_frac(ff));
    let limit: u64 = kani::any();
    let a = Action::SendPadding { bypass: kani::any(), replace: kani::any(), timeout: dummy_dist(), limit: any_opt_dist() };
    const NT: Option<Vec<Trans>> = None;
    let mut sarr = [state_from_parts(None, (None, None), [NT; EVENT_NUM])];
    let machines = [one_state_machine(Some(a), &mut sarr, allowed, pf, kani::any(), 0.0)];
    let mut ac = any_acct();
    ac.f_pad_frac = ff;
    let mut seen_allow_by_fracs = false;
    let mut seen_deny_by_global = false;
    let mut p: u64 = 0;
    while p <= 2 {
        let mut n: u64 = 0;
        while n <= 2 {
            let mut x: u64 = 0;
            while x <= 2 {
                ac.m_padding = p;
                ac.f_normal = n;
                ac.f_padding = p + x;
                let mut rts = [runtime_of(&ac, &machines[0], 0, limit, 0, 0)];
                let mut slots = [None];
                let f = framework_over(&machines, &mut rts, &mut slots, &ac, Tape { w32: [0; T32], w64: [0; T64], c32: 0, c64: 0 });
                let got = f.below_limit_padding(&f.runtime[0], &machines[0]);
                let want = ref_padding_ok(p, n, allowed, pf, p + x, n, ff, limit);
                if got {
                    assert!(limit > 0, "C07(d): a padding action is allowed although the state limit is zero");
                    assert!(want, "C02: padding allowed although neither the machine budget nor both fraction limits permit it");
                } else {
                    assert!(!want, "C05: padding denied although the documented limits permit it");
                }
                assert!(f.below_action_limits(&f.runtime[0], &machines[0]) == got, "C02: the padding predicate is the one applied to padding actions");
                seen_allow_by_fracs |= got && p >= allowed && pf > 0.0 && ff > 0.0 && p > 0;
                seen_deny_by_global |= !got && limit > 0 && p >= allowed && x > 0 && (pf == 0.0 || (p as f64) / ((p + n) as f64) < pf);
                core::mem::forget(f);
                x += 1;
            }
            n += 1;
        }
        p += 1;
    }
    kani::cover!(seen_allow_by_fracs, "allowed below both fractions beyond the budget");
    kani::cover!(seen_deny_by_global, "denied by the framework-wide fraction alone");
    core::mem::forget(machines);
    core::mem::forget(sarr);
}

/// The blocking predicate against the statement for ALL fractions, budgets, limits, both replace
/// settings and active / inactive blocking, with the time quantities case-split over small
/// concrete values (accumulated 0..=2, ongoing 0..=2, elapsed since start 0..=3 microseconds,
/// including "clock ran backwards" = 0 elapsed with blocked time > 0).
#[kani::proof]
#[kani::unwind(5)]
fn k_below_blocking_small() {
    let allowed: u64 = kani::any();
    let bf: f64 = kani::any();
    let ff: f64 = kani::any();
    kani::assume(real_frac(bf) && real_frac(ff));
    let limit: u64 = kani::any();
    let replace: bool = kani::any();
    let active: bool = kani::any();
    let a = Action::BlockOutgoing { bypass: kani::any(), replace, timeout: dummy_dist(), duration: dummy_dist(), limit: any_opt_dist() };
    const NT: Option<Vec<Trans>> = None;
    let mut sarr = [state_from_parts(None, (None, None), [NT; EVENT_NUM])];
    let machines = [one_state_machine(Some(a), &mut sarr, kani::any(), 0.0, allowed, bf)];
    let mut ac = any_acct();
    ac.f_block_frac = ff;
    ac.f_block_active = active;
    let mut seen_frac_deny = false;
    let mut seen_allow = false;
    let mut dur: u64 = 0;
    while dur <= 2 {
        let mut ongoing: u64 = 0;
        while ongoing <= 2 {
            let mut elapsed: u64 = 0;
            while elapsed <= 3 {
                // start = 10, now = 10 + elapsed, blocking started `ongoing` before now (saturating view: started may precede start)
                ac.start = 10;
                ac.now = 10 + elapsed;
                ac.f_block_started = ac.now - ongoing.min(ac.now);
                ac.f_block_dur = dur;
                let mut rts = [runtime_of(&ac, &machines[0], 0, limit, 0, 0)];
                let mut slots = [None];
                let f = framework_over(&machines, &mut rts, &mut slots, &ac, Tape { w32: [0; T32], w64: [0; T64], c32: 0, c64: 0 });
                let got = f.below_limit_blocking(&f.runtime[0], &machines[0]);
                let want = ref_blocking_ok(&ac, allowed, bf, limit, replace);
                if got {
                    assert!(limit > 0, "C07(d): a blocking action is allowed although the state limit is zero");
                    assert!(want, "C03: blocking allowed although it neither replaces active blocking nor stays within the budget or both fraction limits");
                } else {
                    assert!(!want, "C05: blocking denied although the documented limits permit it");
                }
                assert!(f.below_action_limits(&f.runtime[0], &machines[0]) == got, "C03: the blocking predicate is the one applied to blocking actions");
                seen_frac_deny |= !got && limit > 0 && !(replace && active) && dur >= allowed && dur > 0 && elapsed > 0;
                seen_allow |= got && dur >= allowed && bf > 0.0 && ff > 0.0 && dur > 0;
                core::mem::forget(f);
                elapsed += 1;
            }
            ongoing += 1;
        }
        dur += 1;
    }
    kani::cover!(seen_frac_deny, "denied by a fraction");
    kani::cover!(seen_allow, "allowed below both fractions beyond the budget");
    core::mem::forget(machines);
    core::mem::forget(sarr);
}

/// timer / cancel / no action: the remaining arms of the limit dispatch
#[kani::proof]
#[kani::unwind(3)]
fn k_below_other() {
    let ac = any_acct();
    let limit: u64 = kani::any();
    let a = match kani::any::<u8>() % 3 {
        0 => None,
        1 => Some(Action::Cancel { timer: any_timer() }),
        _ => Some(Action::UpdateTimer { replace: kani::any(), duration: dummy_dist(), limit: any_opt_dist() }),
    };
    const NT: Option<Vec<Trans>> = None;
    let mut sarr = [state_from_parts(None, (None, None), [NT; EVENT_NUM])];
    let machines = [one_state_machine(a, &mut sarr, kani::any(), 0.0, kani::any(), 0.0)];
    let mut rts = [runtime_of(&ac, &machines[0], 0, limit, 0, 0)];
    let mut slots = [None];
    let f = framework_over(&machines, &mut rts, &mut slots, &ac, Tape::any());
    let got = f.below_action_limits(&f.runtime[0], &machines[0]);
    match a {
        None => assert!(!got, "C04: a state without action never schedules one"),
        Some(Action::Cancel { .. }) => assert!(got, "C05: cancel actions are not limited"),
        _ => assert!(got == (limit > 0), "C07(d): a timer action is allowed exactly while the state limit is positive"),
    }
    kani::cover!(got, "allowed");
    core::mem::forget(f);
    core::mem::forget(machines);
    core::mem::forget(sarr);
}


// ------------------------------------------------------------------------------------------
// C01 with the real std::time clock: the blocked-time accounting of BlockingEnd
// ------------------------------------------------------------------------------------------
fn any_std_instant() -> std::time::Instant {
    #[repr(C)]
    struct TS {
        secs: i64,
        nanos: u32,
    }
    let secs: i64 = kani::any();
    let nanos: u32 = kani::any();
    kani::assume(nanos < 1_000_000_000 && secs >= 0);
    unsafe { core::mem::transmute::<TS, std::time::Instant>(TS { secs, nanos }) }
}
/// `process_event(BlockingEnd)` with `std::time::{Instant, Duration}`: any accumulated blocked
/// time, any (also backwards) instants. Totality (C01): no panic, no overflow.
#[kani::proof]
#[kani::unwind(3)]
fn k_blocking_end_std() {
    let t0 = any_std_instant();
    let none: &[Machine] = &[];
    let secs: u64 = kani::any();
    let nanos: u32 = kani::any();
    kani::assume(nanos < 1_000_000_000);
    let mut f: Framework<&[Machine], Tape, std::time::Instant> = Framework {
        current_time: any_std_instant(),
        rng: Tape { w32: [0; T32], w64: [0; T64], c32: 0, c64: 0 },
        actions: Vec::new(),
        machines: none,
        runtime: Vec::new(),
        max_padding_frac: 0.0,
        normal_sent_packets: 0,
        padding_sent_packets: 0,
        max_blocking_frac: 0.0,
        blocking_duration: std::time::Duration::new(secs, nanos),
        blocking_started: any_std_instant(),
        blocking_active: kani::any(),
        signal_pending: None,
        framework_start: t0,
    };
    f.process_event(&TriggerEvent::BlockingEnd);
    assert!(!f.blocking_active, "C03: BlockingEnd ends the accounted blocking");
    kani::cover!(f.blocking_duration.as_secs() > secs, "blocked time accumulated");
    core::mem::forget(f);
}

// ------------------------------------------------------------------------------------------
// Framework::new: fractions judged, every machine judged, the initial state satisfies Inv and the
// limit of each machine's first state is sampled for THAT machine (C12, C01, C07(a))
// ------------------------------------------------------------------------------------------
static mut G_MV_CALLS: usize = 0;
static mut G_MV_ERR_AT: usize = usize::MAX;
fn machine_validate_ghost(_m: &Machine) -> Result<(), Error> {
    unsafe {
        let k = G_MV_CALLS;
        G_MV_CALLS += 1;
        if k == G_MV_ERR_AT {
            return Err(Error::PaddingLimit);
        }
    }
    Ok(())
}
pub(crate) fn replay_machine_validate_hook(m: &Machine) -> Option<Result<(), Error>> {
    if mode() == crate::verif::MODE_FRAMEWORK_NEW { Some(machine_validate_ghost(m)) } else { None }
}

#[kani::proof]
#[kani::unwind(4)]
#[kani::stub(crate::machine::Machine::validate, machine_validate_ghost)]
#[kani::stub(crate::action::Action::sample_limit, sample_limit_c)]
fn k_framework_new() {
    set_mode(crate::verif::MODE_FRAMEWORK_NEW);
    const NT: Option<Vec<Trans>> = None;
    // two one-state machines; the first state's action: none / cancel / padding / blocking / timer, with or without limit
    let kinds: [u8; 2] = [kani::any(), kani::any()];
    let lims: [bool; 2] = [kani::any(), kani::any()];
    kani::assume(kinds[0] < 5 && kinds[1] < 5);
    let mk_action = |k: u8, l: bool| -> Option<Action> {
        let lim = opt_dist(l);
        match k {
            0 => None,
            1 => Some(Action::Cancel { timer: Timer::All }),
            2 => Some(Action::SendPadding { bypass: false, replace: false, timeout: dummy_dist(), limit: lim }),
            3 => Some(Action::BlockOutgoing { bypass: false, replace: false, timeout: dummy_dist(), duration: dummy_dist(), limit: lim }),
            _ => Some(Action::UpdateTimer { replace: false, duration: dummy_dist(), limit: lim }),
        }
    };
    let mut s0 = [state_from_parts(mk_action(kinds[0], lims[0]), (None, None), [NT; EVENT_NUM])];
    let mut s1 = [state_from_parts(mk_action(kinds[1], lims[1]), (None, None), [NT; EVENT_NUM])];
    let ab: [u64; 2] = [kani::any(), kani::any()];
    let machines = [
        Machine { allowed_padding_packets: kani::any(), max_padding_frac: 0.0, allowed_blocked_microsec: ab[0], max_blocking_frac: 0.0, states: unsafe { vec_over(&mut s0) } },
        Machine { allowed_padding_packets: kani::any(), max_padding_frac: 0.0, allowed_blocked_microsec: ab[1], max_blocking_frac: 0.0, states: unsafe { vec_over(&mut s1) } },
    ];
    let (pf, bf): (f64, f64) = (kani::any(), kani::any());
    let t: u64 = kani::any();
    let tape = Tape::any();
    let err_at: usize = kani::any();
    unsafe { G_MV_ERR_AT = err_at };
    let r = Framework::new(&machines[..], pf, bf, VT(t), tape);
    let calls = unsafe { G_MV_CALLS };
    match &r {
        Ok(f) => {
            assert!(real_frac(pf) && real_frac(bf), "C12: a framework is only built with fractions that are real numbers in [0,1]");
            assert!(calls == 2 && err_at >= 2, "C12: Framework::new applies the machine judgement to every machine and fails if one is rejected");
            assert!(f.runtime.len() == 2 && f.actions.len() == 2 && f.actions[0].is_none() && f.actions[1].is_none(), "C01: one runtime and one empty action slot per machine (Inv)");
            assert!(f.signal_pending.is_none() && !f.blocking_active && f.normal_sent_packets == 0 && f.padding_sent_packets == 0
                && f.blocking_duration == VD(0) && f.current_time == VT(t) && f.framework_start == VT(t), "C01: a fresh framework has empty accounting (Inv)");
            // limits: drawn in machine order, one word per machine whose first state has a limited action
            let mut cursor = 0;
            let mut i = 0;
            while i < 2 {
                let rt = &f.runtime[i];
                assert!(rt.current_state == 0 && rt.counter_a == 0 && rt.counter_b == 0 && rt.padding_sent == 0 && rt.normal_sent == 0
                    && rt.machine_start == VT(t) && rt.allowed_blocked_microsec == VD(ab[i]) && rt.blocking_duration == VD(0),
                    "C01: every machine starts in its first state with empty accounting and its own blocking budget (Inv)");
                let limited = kinds[i] >= 2 && lims[i];
                let want = if kinds[i] == 0 { 0 } else if limited { tape.w64[cursor] } else { u64::MAX };
                if limited {
                    cursor += 1;
                }
                assert!(rt.state_limit == want, "C07(a): the limit of a machine's first state is sampled once, for that machine (maximum when its action has no limit)");
                i += 1;
            }
            assert!(f.rng.c64 == cursor && f.rng.c32 == 0, "C07(a): one draw per limited first state");
        }
        Err(_) => {
            assert!(!real_frac(pf) || !real_frac(bf) || err_at < 2, "C12: a framework built from accepted machines with fractions in [0,1] never fails");
        }
    }
    kani::cover!(r.is_ok() && kinds[0] == 0 && kinds[1] >= 2 && lims[1], "first machine without action, second with a limited action");
    kani::cover!(r.is_err() && real_frac(pf) && real_frac(bf), "rejected for a machine");
    core::mem::forget(r);
    core::mem::forget(machines);
    core::mem::forget(s0);
    core::mem::forget(s1);
}

// ------------------------------------------------------------------------------------------
// L1 (one machine step, compositional over the CounterZero recursion) and L2 (whole calls)
// ------------------------------------------------------------------------------------------
pub(crate) mod l2 {
    include!("l2.rs");
}
pub(crate) mod fam21 {
    pub(crate) const S: usize = 2;
    pub(crate) const K: usize = 1;
    pub(crate) const FAMILY: u8 = 21;
    include!("l1_family.rs");
}
pub(crate) mod fam22 {
    pub(crate) const S: usize = 2;
    pub(crate) const K: usize = 2;
    pub(crate) const FAMILY: u8 = 22;
    include!("l1_family.rs");
}
pub(crate) mod fam32 {
    pub(crate) const S: usize = 3;
    pub(crate) const K: usize = 2;
    pub(crate) const FAMILY: u8 = 32;
    include!("l1_family.rs");
}
