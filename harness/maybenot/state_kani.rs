//! C06 kernels + the unchecked State constructor used by every other harness
//! (child module of maybenot::state, cfg(kani) only).
use super::*;

/// Build a State from parts without `State::new` (which allocates through EnumMap) and
/// without validation. Rows are `Vec` views over typed arrays owned by the harness.
pub(crate) fn state_from_parts(
    action: Option<Action>,
    counter: (Option<Counter>, Option<Counter>),
    transitions: [Option<Vec<Trans>>; EVENT_NUM],
) -> State {
    State { action, counter, transitions }
}

pub(crate) fn row_of(s: &State, e: usize) -> Option<&[Trans]> {
    s.transitions[e].as_ref().map(|v| v.as_slice())
}

/// Vec view over a typed local array (never dropped / grown; callers forget it).
pub(crate) unsafe fn vec_over<T, const N: usize>(arr: &mut [T; N]) -> Vec<T> {
    Vec::from_raw_parts(arr.as_mut_ptr(), N, N)
}

/// RNG that hands out one fixed 32-bit word and counts the draws.
pub(crate) struct OneWord {
    pub w: u32,
    pub draws: u32,
}
impl rand_core::RngCore for OneWord {
    fn next_u32(&mut self) -> u32 {
        self.draws += 1;
        self.w
    }
    fn next_u64(&mut self) -> u64 {
        self.draws += 1;
        ((self.w as u64) << 32) | self.w as u64
    }
    fn fill_bytes(&mut self, _d: &mut [u8]) {
        self.draws += 100;
    }
    fn try_fill_bytes(&mut self, _d: &mut [u8]) -> Result<(), rand_core::Error> {
        self.draws += 100;
        Ok(())
    }
}

/// documented well-formedness of one transition row (what validation promises, C12):
/// probabilities real in (0,1], running f32 sum (declaration order) at most 1.
fn wf_row<const K: usize>(row: &[Trans; K]) -> bool {
    let mut sum: f32 = 0.0;
    let mut i = 0;
    while i < K {
        if !(row[i].1 > 0.0 && row[i].1 <= 1.0) {
            return false;
        }
        sum += row[i].1;
        i += 1;
    }
    sum <= 1.0
}

/// C06 for a row of K alternatives and EVERY 32-bit random word.
/// Oracle (tolerant form, independent of how the word is turned into the uniform draw, as long as
/// it is monotone and has at least 2^-22 resolution): with P_i the exact partial sums of the
/// declared probabilities and u = w / 2^32,
///   u in [P_{i-1} + eps, P_i - eps)  =>  target i is chosen
///   u >= P_K + eps                   =>  no transition
/// with eps = 2^-21 (two draw-grid points plus the f32 rounding of the running sum), plus the exact
/// clauses: probability 1 is always taken; at most one word is drawn; a missing row draws nothing.
fn c06_row<const K: usize>(fixed_events: bool) {
    const NT: Option<Vec<Trans>> = None;
    let mut row: [Trans; K] = [Trans(0, 0.0); K];
    let mut i = 0;
    while i < K {
        row[i] = Trans(kani::any(), kani::any());
        i += 1;
    }
    kani::assume(wf_row(&row));
    let decl = row;
    // K <= 2: any event; larger rows: one fixed pair of events (the row logic does not depend on the event)
    let e: usize = if fixed_events { 3 } else { kani::any() };
    kani::assume(e < EVENT_NUM);
    let other: usize = if fixed_events { 4 } else { kani::any() };
    kani::assume(other < EVENT_NUM && other != e);
    let mut tr = [NT; EVENT_NUM];
    tr[e] = Some(unsafe { vec_over(&mut row) });
    let s = state_from_parts(None, (None, None), tr);
    let w: u32 = kani::any();
    let mut rng = OneWord { w, draws: 0 };
    let ev = <Event as Enum>::from_usize(e);
    let got = s.sample_state(ev, &mut rng);
    assert!(rng.draws == 1, "C06: exactly one random word is drawn for an event with transitions");

    let u = (w as f64) / 4294967296.0;
    let eps = 1.0 / 2097152.0;
    let mut lo: f64 = 0.0;
    let mut i = 0;
    while i < K {
        let hi = lo + decl[i].1 as f64;
        if u >= lo + eps && u < hi - eps {
            assert!(got == Some(decl[i].0), "C06: target i must be chosen on its share [P(i-1), P(i)) of the random outputs");
        }
        lo = hi;
        i += 1;
    }
    if u >= lo + eps {
        assert!(got.is_none(), "C06: no transition on the remaining 1 - sum(p) share");
    }
    if decl[0].1 == 1.0 {
        assert!(got == Some(decl[0].0), "C06: a transition declared with probability 1 is always taken");
    }
    // whatever is returned is one of the declared targets
    if let Some(t) = got {
        let mut found = false;
        let mut i = 0;
        while i < K {
            found |= decl[i].0 == t;
            i += 1;
        }
        assert!(found, "C06: chosen target is one of the declared targets");
    }
    // an event for which the state declares no transitions never moves the machine and draws nothing
    let mut rng2 = OneWord { w, draws: 0 };
    let got2 = s.sample_state(<Event as Enum>::from_usize(other), &mut rng2);
    assert!(got2.is_none() && rng2.draws == 0, "C06: an event without transitions never moves the machine");

    kani::cover!(got.is_none(), "no transition taken");
    kani::cover!(K > 1 && got == Some(decl[K - 1].0) && decl[K - 1].0 != decl[0].0, "last alternative taken");
    kani::cover!(decl[0].1 == 1.0, "probability exactly one");
    core::mem::forget(s);
}

#[kani::proof]
#[kani::unwind(3)]
fn k_sample_state_k1() {
    c06_row::<1>(false);
}
#[kani::proof]
#[kani::unwind(4)]
fn k_sample_state_k2() {
    c06_row::<2>(false);
}
#[kani::proof]
#[kani::unwind(5)]
fn k_sample_state_k3() {
    c06_row::<3>(true);
}
#[kani::proof]
#[kani::unwind(6)]
fn k_sample_state_k4() {
    c06_row::<4>(true);
}

/// Exact threshold form for the draw the crate documents ("one uniform draw in [0,1)" obtained
/// from the top 23 bits of one word): target i iff c_{i-1} <= r < c_i with c the f32 running sums.
/// This is the stronger, implementation-shaped statement used by the C05 reference model; it is
/// tagged C05 because C06 itself only speaks about shares.
fn c05_row_exact<const K: usize>() {
    const NT: Option<Vec<Trans>> = None;
    let mut row: [Trans; K] = [Trans(0, 0.0); K];
    let mut i = 0;
    while i < K {
        row[i] = Trans(kani::any(), kani::any());
        i += 1;
    }
    kani::assume(wf_row(&row));
    let decl = row;
    let mut tr = [NT; EVENT_NUM];
    tr[3] = Some(unsafe { vec_over(&mut row) });
    let s = state_from_parts(None, (None, None), tr);
    let w: u32 = kani::any();
    let mut rng = OneWord { w, draws: 0 };
    let got = s.sample_state(Event::NormalSent, &mut rng);
    let want = ref_sample_row(&decl, w);
    assert!(got == want, "C05: sampled target differs from the documented cumulative-sum rule");
    kani::cover!(got.is_none(), "no transition taken");
    core::mem::forget(s);
}

/// Contract of `sample_state` used at L1 (proved for the real function by k_sample_state_exact_*):
/// exactly one 32-bit word is drawn when the row exists, the uniform draw is its top 23 bits
/// scaled to [0,1), the row is scanned in declaration order against the f32 running sum.
/// (The real function reaches this through rand's rejection loop, whose exit the symbolic
/// executor cannot decide statically; that is why the closed form is substituted at L1.)
pub(crate) fn sample_state_c<R: RngCore>(s: &State, event: Event, rng: &mut R) -> Option<usize> {
    if let Some(vector) = &s.transitions[event.to_usize()] {
        let w = rng.next_u32();
        let r = ((w >> 9) as f32) * (1.0 / 8388608.0);
        let mut sum: f32 = 0.0;
        for t in vector.iter() {
            sum += t.1;
            if r < sum {
                return Some(t.0);
            }
        }
    }
    None
}
pub(crate) fn replay_sample_state_hook<R: RngCore>(s: &State, event: Event, rng: &mut R) -> Option<Option<usize>> {
    if crate::verif::leaf_contracts_on() { Some(sample_state_c(s, event, rng)) } else { None }
}

/// reference: documented cumulative-sum sampling over one uniform draw in [0,1)
pub(crate) fn ref_sample_row<const K: usize>(row: &[Trans; K], w: u32) -> Option<usize> {
    let r = ((w >> 9) as f32) * (1.0 / 8388608.0);
    let mut sum: f32 = 0.0;
    let mut i = 0;
    while i < K {
        sum += row[i].1;
        if r < sum {
            return Some(row[i].0);
        }
        i += 1;
    }
    None
}

#[kani::proof]
#[kani::unwind(4)]
fn k_sample_state_exact_k2() {
    c05_row_exact::<2>();
}

// ------------------------------------------------------------------------------------------
// C12: the state-level judgement of validation
// ------------------------------------------------------------------------------------------
pub(crate) fn format_stub(_args: core::fmt::Arguments<'_>) -> String {
    String::new()
}
/// HashSet::insert replaced by a no-op: the set stays empty, `contains` answers from the empty
/// fast path, and no SipHash / hashbrown probing is executed symbolically. The price: duplicates go
/// unnoticed, so the row kernels ASSUME pairwise distinct targets (the duplicate clause is decided
/// by k_validate_dup_* on concrete rows with the real HashSet).
static mut G_INSERTED: [usize; 4] = [0; 4];
static mut G_INSERTED_N: usize = 0;
fn hs_insert_noop<T, S, A: std::alloc::Allocator>(_this: &mut std::collections::HashSet<T, S, A>, v: T) -> bool {
    // ghost: which targets were handed to the duplicate judgement (T is usize in State::validate)
    unsafe {
        if G_INSERTED_N < 4 && core::mem::size_of::<T>() == core::mem::size_of::<usize>() {
            G_INSERTED[G_INSERTED_N] = core::ptr::read(&v as *const T as *const usize);
        }
        G_INSERTED_N += 1;
    }
    core::mem::forget(v);
    true
}
fn random_state_fixed() -> std::hash::RandomState {
    // RandomState::new() reaches getrandom (FFI); two fixed keys instead
    unsafe { core::mem::transmute::<[u64; 2], std::hash::RandomState>([0x0123_4567_89ab_cdef, 0xfedc_ba98_7654_3210]) }
}

fn c12_row<const K: usize>() {
    const NT: Option<Vec<Trans>> = None;
    let mut row: [Trans; K] = [Trans(0, 0.0); K];
    let mut i = 0;
    while i < K {
        row[i] = Trans(kani::any(), kani::any());
        let mut j = 0;
        while j < i {
            kani::assume(row[j].0 != row[i].0);
            j += 1;
        }
        i += 1;
    }
    let decl = row;
    let num_states: usize = kani::any();
    kani::assume(num_states >= 1 && num_states <= STATE_MAX);
    let mut tr = [NT; EVENT_NUM];
    tr[3] = Some(unsafe { vec_over(&mut row) });
    let s = state_from_parts(None, (None, None), tr);
    let r = s.validate(num_states);
    if r.is_ok() {
        let mut sum: f32 = 0.0;
        let mut i = 0;
        while i < K {
            let (t, p) = (decl[i].0, decl[i].1);
            assert!(t < num_states || t == STATE_END || t == STATE_SIGNAL, "C12/C01: every accepted transition target is an existing state or a pseudo-state (a framework built from accepted machines never indexes a state that does not exist)");
            assert!(p > 0.0 && p <= 1.0, "C12: every accepted transition probability is a real number in (0,1] (NaN never accepted)");
            sum += p;
            i += 1;
        }
        assert!(sum > 0.0 && sum <= 1.0, "C12: the accepted per-event probability sum is a real number of at most 1 (NaN never accepted)");
        // the duplicate judgement sees EVERY target of an accepted row (states and pseudo-states alike), in order
        let n = unsafe { G_INSERTED_N };
        assert!(n == K, "C12: every target of an accepted row (existing state or pseudo-state) is recorded for the no-duplicates judgement");
        let mut i = 0;
        while i < K {
            assert!(unsafe { G_INSERTED[i] } == decl[i].0, "C12: the no-duplicates judgement records the target itself");
            i += 1;
        }
    }
    kani::cover!(r.is_ok() && K > 1 && decl[K - 1].0 == STATE_SIGNAL, "row with the signal pseudo-state accepted");
    kani::cover!(r.is_err(), "row rejected");
    core::mem::forget(r);
    core::mem::forget(s);
}

#[kani::proof]
#[kani::unwind(15)]
#[kani::stub(alloc::fmt::format, format_stub)]
#[kani::stub(std::collections::HashSet::insert, hs_insert_noop)]
#[kani::stub(std::hash::RandomState::new, random_state_fixed)]
fn k_validate_row_k1() {
    c12_row::<1>();
}
#[kani::proof]
#[kani::unwind(15)]
#[kani::stub(alloc::fmt::format, format_stub)]
#[kani::stub(std::collections::HashSet::insert, hs_insert_noop)]
#[kani::stub(std::hash::RandomState::new, random_state_fixed)]
fn k_validate_row_k2() {
    c12_row::<2>();
}

static mut G_DIST_VALIDATE_CALLS: usize = 0;
static mut G_DIST_VALIDATE_ERR_AT: usize = usize::MAX;
fn dist_validate_ghost(_d: &crate::dist::Dist) -> Result<(), Error> {
    unsafe {
        let k = G_DIST_VALIDATE_CALLS;
        G_DIST_VALIDATE_CALLS += 1;
        if k == G_DIST_VALIDATE_ERR_AT {
            return Err(Error::PaddingLimit);
        }
    }
    Ok(())
}
fn dd() -> crate::dist::Dist {
    crate::dist::Dist { dist: crate::dist::DistType::Uniform { low: 0.0, high: 0.0 }, start: 0.0, max: 0.0 }
}

/// State::validate judges EVERY distribution of the state's action and counters: each is handed
/// to Dist::validate (ghost: counts the calls, rejects the harness-chosen one), and a rejected
/// distribution rejects the state.
#[kani::proof]
#[kani::unwind(15)]
#[kani::stub(alloc::fmt::format, format_stub)]
#[kani::stub(crate::dist::Dist::validate, dist_validate_ghost)]
fn k_validate_state_dists() {
    const NT: Option<Vec<Trans>> = None;
    let od = |b: bool| if b { Some(dd()) } else { None };
    let has_limit: bool = kani::any();
    let kind: u8 = kani::any();
    kani::assume(kind < 5);
    let action = match kind {
        0 => None,
        1 => Some(Action::Cancel { timer: crate::action::Timer::All }),
        2 => Some(Action::SendPadding { bypass: kani::any(), replace: kani::any(), timeout: dd(), limit: od(has_limit) }),
        3 => Some(Action::BlockOutgoing { bypass: kani::any(), replace: kani::any(), timeout: dd(), duration: dd(), limit: od(has_limit) }),
        _ => Some(Action::UpdateTimer { replace: kani::any(), duration: dd(), limit: od(has_limit) }),
    };
    let (ca, cb, cad, cbd): (bool, bool, bool, bool) = (kani::any(), kani::any(), kani::any(), kani::any());
    let mk = |present: bool, d: bool| if present { Some(Counter { operation: crate::counter::Operation::Set, dist: od(d), copy: kani::any() }) } else { None };
    let s = state_from_parts(action, (mk(ca, cad), mk(cb, cbd)), [NT; EVENT_NUM]);
    let err_at: usize = kani::any();
    unsafe { G_DIST_VALIDATE_ERR_AT = err_at };
    let r = s.validate(1);
    let calls = unsafe { G_DIST_VALIDATE_CALLS };
    let in_action = match kind { 0 | 1 => 0, 2 => 1, 3 => 2, _ => 1 } + if kind >= 2 && has_limit { 1 } else { 0 };
    let expected = in_action + (ca && cad) as usize + (cb && cbd) as usize;
    if r.is_ok() {
        assert!(calls == expected, "C12: every distribution of an accepted state's action and counters was judged by the distribution validation");
        assert!(err_at >= expected, "C12: a state with a rejected distribution is rejected");
    }
    kani::cover!(r.is_ok() && expected == 5, "state with five distributions accepted");
    kani::cover!(r.is_err(), "state rejected for a distribution");
    core::mem::forget(r);
    core::mem::forget(s);
}

