//! C13 / C04 kernels over dist.rs, action.rs, counter.rs
//! (child module of maybenot::dist, cfg(kani) only).
use super::*;
use crate::action::Action;
use crate::constants::*;
use crate::counter::{Counter, Operation};

#[kani::proof]
fn k_warm() {
    let x: u8 = kani::any();
    assert!(x as u16 <= 255);
}

/// RNG whose every word is a fresh symbolic value; counts the draws.
pub(crate) struct AnyRng {
    pub n32: u32,
    pub n64: u32,
}
impl AnyRng {
    pub(crate) fn new() -> Self {
        AnyRng { n32: 0, n64: 0 }
    }
}
impl rand_core::RngCore for AnyRng {
    fn next_u32(&mut self) -> u32 {
        self.n32 += 1;
        kani::any()
    }
    fn next_u64(&mut self) -> u64 {
        self.n64 += 1;
        kani::any()
    }
    fn fill_bytes(&mut self, _d: &mut [u8]) {
        panic!("fill_bytes is never used by maybenot");
    }
    fn try_fill_bytes(&mut self, _d: &mut [u8]) -> Result<(), rand_core::Error> {
        panic!("try_fill_bytes is never used by maybenot");
    }
}

/// Environment model of the private sampler `Dist::dist_sample` (proof mode): the result of the
/// underlying sampler is ANY f64 bit pattern (NaN and infinities included) — a sound
/// over-approximation of all 11 families. One u64 word is consumed per sample.
pub(crate) fn dist_sample_any<R: RngCore>(_d: Dist, rng: &mut R) -> f64 {
    f64::from_bits(rng.next_u64())
}

/// native-replay hook (cfg(verif_replay_stub) only, see engine/scratch.py)
pub(crate) fn replay_dist_hook<R: RngCore>(d: Dist, rng: &mut R) -> Option<f64> {
    if crate::verif::mode() == crate::verif::MODE_DIST { Some(dist_sample_any(d, rng)) } else { None }
}

pub(crate) fn any_dist() -> Dist {
    // family parameters are irrelevant once the sampler is abstracted; start/max are symbolic
    Dist { dist: DistType::Uniform { low: 0.0, high: 0.0 }, start: kani::any(), max: kani::any() }
}

const DAY_US: u64 = 86_400_000_000;

/// C13 (range) + C04 (one-day clamp): every family, sampler result abstracted to any f64,
/// start / max any f64 (NaN, infinities, negative).
#[kani::proof]
#[kani::stub(crate::dist::Dist::dist_sample, dist_sample_any)]
fn k_dist_clamp() {
    crate::verif::set_mode(crate::verif::MODE_DIST);
    let d = any_dist();
    let mut rng = AnyRng::new();
    let v = d.sample(&mut rng);
    assert!(!v.is_nan(), "C13: sample is a real number (not NaN)");
    assert!(v >= 0.0, "C13: sample is at least 0");
    if d.max > 0.0 {
        assert!(v <= d.max, "C13: sample is at most max when a maximum is set");
    }
    assert!(rng.n64 == 1 && rng.n32 == 0, "C13: one sampler invocation per sample");
    kani::cover!(v == 0.0, "clamped to zero");
    kani::cover!(d.max > 0.0 && v == d.max, "clamped to max");
    kani::cover!(v.is_infinite(), "infinite sample with no max");
}

#[kani::proof]
#[kani::stub(crate::dist::Dist::dist_sample, dist_sample_any)]
fn k_action_samples() {
    crate::verif::set_mode(crate::verif::MODE_DIST);
    let mut rng = AnyRng::new();
    let lim = if kani::any() { Some(any_dist()) } else { None };
    let a = match kani::any::<u8>() % 4 {
        0 => Action::Cancel { timer: crate::action::Timer::All },
        1 => Action::SendPadding { bypass: kani::any(), replace: kani::any(), timeout: any_dist(), limit: lim },
        2 => Action::BlockOutgoing { bypass: kani::any(), replace: kani::any(), timeout: any_dist(), duration: any_dist(), limit: lim },
        _ => Action::UpdateTimer { replace: kani::any(), duration: any_dist(), limit: lim },
    };
    let to = a.sample_timeout(&mut rng);
    let du = a.sample_duration(&mut rng);
    assert!(to <= DAY_US, "C04: sampled timeout is at most 24 hours");
    assert!(du <= DAY_US, "C04: sampled duration is at most 24 hours");
    let n_before = rng.n64;
    let l = a.sample_limit(&mut rng);
    if !a.has_limit() {
        assert!(l == u64::MAX && rng.n64 == n_before, "C07(a): an action without a limit distribution has the maximum limit and samples nothing");
    } else {
        assert!(rng.n64 == n_before + 1, "C07(a): the limit is sampled exactly once");
    }
    match a {
        Action::Cancel { .. } => assert!(to == 0 && du == 0 && !a.has_limit(), "C04: cancel carries no durations"),
        Action::SendPadding { .. } => assert!(du == 0, "C04: padding carries no duration"),
        Action::UpdateTimer { .. } => assert!(to == 0, "C04: timer update carries no timeout"),
        _ => {}
    }
    let c = Counter { operation: Operation::Set, dist: if kani::any() { Some(any_dist()) } else { None }, copy: kani::any() };
    let n0 = rng.n64;
    let v = c.sample_value(&mut rng);
    if c.dist.is_none() {
        assert!(v == 1 && rng.n64 == n0, "C08: a counter without distribution updates by exactly 1");
    }
    kani::cover!(to == DAY_US, "timeout clamped to a day");
    kani::cover!(du == DAY_US, "duration clamped to a day");
    kani::cover!(a.has_limit() && l == 0, "sampled limit zero");
    kani::cover!(v == u64::MAX, "counter value saturates the cast");
}

/// RNG with one fixed 64-bit word; a second draw is an explicit (replayable) assertion failure.
struct OneWord64 {
    w: u64,
    draws: u32,
}
impl rand_core::RngCore for OneWord64 {
    fn next_u32(&mut self) -> u32 {
        self.next_u64() as u32
    }
    fn next_u64(&mut self) -> u64 {
        assert!(self.draws == 0, "C13: Uniform needed a second random word although the first had its top two bits clear");
        self.draws += 1;
        self.w
    }
    fn fill_bytes(&mut self, _d: &mut [u8]) {}
    fn try_fill_bytes(&mut self, _d: &mut [u8]) -> Result<(), rand_core::Error> {
        Ok(())
    }
}

fn uniform_validated(low: f64, high: f64) -> bool {
    // what Dist::validate promises for Uniform (C12), restated
    low.is_finite() && high.is_finite() && low <= high && (high - low).is_finite()
}

/// C13 on the REAL Uniform arm of dist_sample (no stub): constant fast path.
#[kani::proof]
#[kani::unwind(3)]
fn k_uniform_const() {
    let low: f64 = kani::any();
    kani::assume(uniform_validated(low, low));
    let d = Dist { dist: DistType::Uniform { low, high: low }, start: 0.0, max: 0.0 };
    let mut rng = OneWord64 { w: kani::any(), draws: 0 };
    let v = d.dist_sample(&mut rng);
    assert!(v == low && rng.draws == 0, "C13: Uniform with low == high returns low without drawing");
    let s = d.sample(&mut rng);
    assert!(!s.is_nan() && s >= 0.0, "C13: sample is a real number at least 0");
    kani::cover!(low < 0.0, "negative constant");
}

/// C13 on the REAL Uniform arm (rand's UniformFloat::sample_single): for every validated
/// low < high, a word whose top two bits are clear ends the rejection loop in its first iteration
/// with low <= v < high. (A fair source produces such a word with probability 1/4 per draw, hence
/// the loop ends "promptly"; the stronger lemma with one clear bit is false, see DESIGN.md.)
#[kani::proof]
#[kani::unwind(3)]
fn k_uniform_real() {
    let low: f64 = kani::any();
    let high: f64 = kani::any();
    kani::assume(uniform_validated(low, high) && low < high);
    let w: u64 = kani::any();
    kani::assume(w >> 62 == 0);
    let d = Dist { dist: DistType::Uniform { low, high }, start: 0.0, max: 0.0 };
    let mut rng = OneWord64 { w, draws: 0 };
    let v = d.dist_sample(&mut rng);
    assert!(v >= low && v < high, "C13: Uniform sample lies in [low, high)");
    assert!(rng.draws == 1, "C13: Uniform draws exactly one word here");
    kani::cover!(v == low, "sample equals low");
}

// ------------------------------------------------------------------------------------------
// C12: distribution parameter judgement, one kernel per family (parameters: any f64 bit pattern)
// ------------------------------------------------------------------------------------------
pub(crate) fn format_stub(_args: core::fmt::Arguments<'_>) -> String {
    String::new()
}
fn display_stub<T>(_e: &T, _f: &mut core::fmt::Formatter<'_>) -> core::fmt::Result {
    Ok(())
}
fn prob(p: f64) -> bool {
    p >= 0.0 && p <= 1.0
}
// rand_distr constructors that compute ln / exp / sqrt / log_gamma (libm inline asm, unsupported and
// irrelevant to the judgement) are replaced by their documented acceptance conditions
// (rand_distr 0.4.3: poisson.rs:68, gamma.rs:161, gamma.rs Beta::new, geometric.rs:61).
use rand_distr::num_traits::Float as NtFloat;
fn poisson_new_c<F: NtFloat>(lambda: F) -> Result<Poisson<F>, rand_distr::PoissonError>
where
    F: rand_distr::num_traits::FloatConst,
    rand_distr::Standard: Distribution<F>,
{
    if !(lambda > F::zero()) {
        return Err(rand_distr::PoissonError::ShapeTooSmall);
    }
    Ok(unsafe { core::mem::zeroed() })
}
fn gamma_new_c<F: NtFloat>(shape: F, scale: F) -> Result<Gamma<F>, rand_distr::GammaError>
where
    rand_distr::StandardNormal: Distribution<F>,
    rand_distr::Exp1: Distribution<F>,
    rand_distr::Open01: Distribution<F>,
{
    if !(shape > F::zero()) {
        return Err(rand_distr::GammaError::ShapeTooSmall);
    }
    if !(scale > F::zero()) {
        return Err(rand_distr::GammaError::ScaleTooSmall);
    }
    Ok(unsafe { core::mem::zeroed() })
}
fn beta_new_c<F: NtFloat>(alpha: F, beta: F) -> Result<Beta<F>, rand_distr::BetaError>
where
    rand_distr::Open01: Distribution<F>,
{
    if !(alpha > F::zero()) {
        return Err(rand_distr::BetaError::AlphaTooSmall);
    }
    if !(beta > F::zero()) {
        return Err(rand_distr::BetaError::BetaTooSmall);
    }
    Ok(unsafe { core::mem::zeroed() })
}
fn geometric_new_c(p: f64) -> Result<Geometric, rand_distr::GeoError> {
    if !p.is_finite() || p < 0.0 || p > 1.0 {
        return Err(rand_distr::GeoError::InvalidProbability);
    }
    Ok(unsafe { core::mem::zeroed() })
}
macro_rules! dist_validate {
    ($name:ident, $mk:expr, $ok:expr, $cover:expr) => {
        #[kani::proof]
        #[kani::unwind(3)]
        #[kani::stub(alloc::fmt::format, format_stub)]
        #[kani::stub(rand_distr::Poisson::new, poisson_new_c)]
        #[kani::stub(rand_distr::Gamma::new, gamma_new_c)]
        #[kani::stub(rand_distr::Beta::new, beta_new_c)]
        #[kani::stub(rand_distr::Geometric::new, geometric_new_c)]
        fn $name() {
            let (a, b, c): (f64, f64, f64) = (kani::any(), kani::any(), kani::any());
            let n: u64 = kani::any();
            let mkf: fn(f64, f64, f64, u64) -> DistType = $mk;
            let dt: DistType = mkf(a, b, c, n);
            let d = Dist { dist: dt, start: kani::any(), max: kani::any() };
            let r = d.validate();
            let okf: fn(f64, f64, f64, u64) -> bool = $ok;
            if r.is_ok() {
                assert!(okf(a, b, c, n), "C12/C13: only distributions whose parameters are valid (and inside the bounds that keep sampling prompt) are accepted; NaN is never accepted where a probability or scale is required");
            }
            let cov: fn(f64, f64, f64, u64) -> bool = $cover;
            kani::cover!(r.is_ok() && cov(a, b, c, n), "accepted at a parameter corner");
            core::mem::forget(r);
        }
    };
}
dist_validate!(k_dist_validate_uniform, |a, b, _c, _n| DistType::Uniform { low: a, high: b },
    |a, b, _c, _n| a.is_finite() && b.is_finite() && a <= b && (b - a).is_finite(), |a, b, _c, _n| a == b);
dist_validate!(k_dist_validate_normal, |a, b, _c, _n| DistType::Normal { mean: a, stdev: b },
    |_a, b, _c, _n| b.is_finite(), |_a, b, _c, _n| b == 0.0);
dist_validate!(k_dist_validate_lognormal, |a, b, _c, _n| DistType::LogNormal { mu: a, sigma: b },
    |_a, b, _c, _n| b.is_finite(), |_a, b, _c, _n| b == 0.0);
dist_validate!(k_dist_validate_skewnormal, |a, b, c, _n| DistType::SkewNormal { location: a, scale: b, shape: c },
    |_a, b, c, _n| b.is_finite() && b > 0.0 && c.is_finite(), |_a, _b, c, _n| c == 0.0);
dist_validate!(k_dist_validate_binomial, |a, _b, _c, n| DistType::Binomial { trials: n, probability: a },
    |a, _b, _c, n| prob(a) && (a == 0.0 || a >= DIST_MIN_PROBABILITY) && n <= 1_000_000_000, |a, _b, _c, n| a == 1.0 && n == 1_000_000_000);
dist_validate!(k_dist_validate_geometric, |a, _b, _c, _n| DistType::Geometric { probability: a },
    |a, _b, _c, _n| prob(a) && (a == 0.0 || a >= DIST_MIN_PROBABILITY), |a, _b, _c, _n| a == DIST_MIN_PROBABILITY);
dist_validate!(k_dist_validate_pareto, |a, b, _c, _n| DistType::Pareto { scale: a, shape: b },
    |a, b, _c, _n| a > 0.0 && b > 0.0, |a, _b, _c, _n| a == f64::MIN_POSITIVE);
dist_validate!(k_dist_validate_weibull, |a, b, _c, _n| DistType::Weibull { scale: a, shape: b },
    |a, b, _c, _n| a > 0.0 && b > 0.0, |a, _b, _c, _n| a.is_infinite());
dist_validate!(k_dist_validate_poisson, |a, _b, _c, _n| DistType::Poisson { lambda: a },
    |a, _b, _c, _n| a > 0.0 && a <= 1e42, |a, _b, _c, _n| a == 1e42);
dist_validate!(k_dist_validate_gamma, |a, b, _c, _n| DistType::Gamma { scale: a, shape: b },
    |a, b, _c, _n| a > 0.0 && b > 0.0, |_a, b, _c, _n| b == 1.0);
dist_validate!(k_dist_validate_beta, |a, b, _c, _n| DistType::Beta { alpha: a, beta: b },
    |a, b, _c, _n| a > 0.0 && b > 0.0, |a, _b, _c, _n| a == 1.0);
