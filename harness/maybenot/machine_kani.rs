//! C12 kernels over machine.rs (child module of maybenot::machine, cfg(kani) only).
use super::*;
use crate::state::verif_kani::{state_from_parts, vec_over};
use crate::state::Trans;

pub(crate) fn format_stub(_args: core::fmt::Arguments<'_>) -> String {
    String::new()
}

fn real_frac(x: f64) -> bool {
    // "a real number in [0,1]" — written so that NaN fails
    x >= 0.0 && x <= 1.0
}

static mut G_STATE_VALIDATE_CALLS: usize = 0;
static mut G_STATE_VALIDATE_NUM_OK: bool = true;
static mut G_STATE_VALIDATE_ERR_AT: usize = usize::MAX;
static mut G_EXPECT_NUM_STATES: usize = 0;

/// ghost stand-in for State::validate: counts the calls, checks the `num_states` argument and
/// fails at the harness-chosen call. (State::validate itself is decided by the row / action kernels.)
fn state_validate_ghost(_s: &crate::state::State, num_states: usize) -> Result<(), Error> {
    unsafe {
        let k = G_STATE_VALIDATE_CALLS;
        G_STATE_VALIDATE_CALLS += 1;
        if num_states != G_EXPECT_NUM_STATES {
            G_STATE_VALIDATE_NUM_OK = false;
        }
        if k == G_STATE_VALIDATE_ERR_AT {
            return Err(Error::PaddingLimit);
        }
    }
    Ok(())
}

pub(crate) fn replay_state_validate_hook(s: &crate::state::State, num_states: usize) -> Option<Result<(), Error>> {
    if crate::verif::mode() == crate::verif::MODE_MACHINE_VALIDATE { Some(state_validate_ghost(s, num_states)) } else { None }
}
fn display_stub(_e: &Error, _f: &mut core::fmt::Formatter<'_>) -> core::fmt::Result {
    Ok(())
}

/// Machine::validate = fractions real in [0,1]  AND  at least one state  AND  every state judged
/// by State::validate with the machine's number of states. Fractions ANY f64 bit pattern, budgets
/// any u64, 0..=3 states, any one of the state judgements failing.
#[kani::proof]
#[kani::unwind(5)]
#[kani::stub(alloc::fmt::format, format_stub)]
#[kani::stub(crate::state::State::validate, state_validate_ghost)]
#[kani::stub(<crate::Error as core::fmt::Display>::fmt, display_stub)]
fn k_validate_machine() {
    crate::verif::set_mode(crate::verif::MODE_MACHINE_VALIDATE);
    const NT: Option<Vec<Trans>> = None;
    let mk = || state_from_parts(None, (None, None), [NT; EVENT_NUM]);
    let mut sarr = [mk(), mk(), mk()];
    let n: usize = kani::any();
    kani::assume(n <= 3);
    let mut states = unsafe { vec_over(&mut sarr) };
    unsafe { states.set_len(n) };
    let m = Machine {
        allowed_padding_packets: kani::any(),
        max_padding_frac: kani::any(),
        allowed_blocked_microsec: kani::any(),
        max_blocking_frac: kani::any(),
        states,
    };
    let err_at: usize = kani::any();
    unsafe {
        G_EXPECT_NUM_STATES = n;
        G_STATE_VALIDATE_ERR_AT = err_at;
    }
    let r = m.validate();
    let calls = unsafe { G_STATE_VALIDATE_CALLS };
    if r.is_ok() {
        assert!(real_frac(m.max_padding_frac), "C12: accepted max_padding_frac is a real number in [0,1] (NaN never accepted)");
        assert!(real_frac(m.max_blocking_frac), "C12: accepted max_blocking_frac is a real number in [0,1] (NaN never accepted)");
        assert!(n >= 1, "C12: an accepted machine has at least one state");
        assert!(calls == n, "C12: every state of an accepted machine was judged by the state validation");
        assert!(unsafe { G_STATE_VALIDATE_NUM_OK }, "C12: states are judged against the machine's number of states");
        assert!(err_at >= n, "C12: a machine with a rejected state is rejected");
    } else {
        assert!(!real_frac(m.max_padding_frac) || !real_frac(m.max_blocking_frac) || n == 0 || err_at < n,
            "C12: a machine with fractions in [0,1], at least one state and only accepted states is accepted");
    }
    kani::cover!(r.is_ok() && m.max_padding_frac == 1.0 && n == 3, "accepted with fraction 1 and three states");
    kani::cover!(r.is_err() && n > 0 && err_at >= n, "rejected for a fraction");
    kani::cover!(r.is_err() && err_at == 1 && n == 3, "rejected for its second state");
    core::mem::forget(r);
    core::mem::forget(m);
    core::mem::forget(sarr);
}
