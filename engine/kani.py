"""Run `cargo kani` on a batch of harnesses in the scratch copy and parse the result."""
import os
import re
import resource
import signal
import subprocess
import time

# CBMC float diagnostics that are not Rust failures (DESIGN.md 2.7)
IGNORED_DESCR = re.compile(
    r"^(NaN on |arithmetic overflow on floating-point|float(ing-point)? overflow)", re.I
)

CHECK_RE = re.compile(
    r"^Check (\d+): ([^\n]+?)\s*\n\s+- Status: (\w+)\s*\n\s+- Description: \"(.*?)\"\s*\n(?:\s+- Location: (.*?)\n)?",
    re.M | re.S,
)
TAG_RE = re.compile(r"^C\d\d[^:]*:")
HARNESS_RE = re.compile(r"^Checking harness (\S+?)\.\.\.\s*$", re.M)


def _limits(mem_gb):
    def f():
        os.setsid()
        if mem_gb:
            b = int(mem_gb * (1 << 30))
            resource.setrlimit(resource.RLIMIT_AS, (b, b))
    return f


def run_batch(scratch_repo, package, harnesses, target_dir, timeout_s, mem_gb, log_path,
              extra_args=(), playback=False):
    """Returns (rc, wall_s, timed_out, log_text)."""
    cmd = ["cargo", "kani", "-p", package, "-Z", "stubbing", "--target-dir", target_dir, "--exact"]
    if playback:
        cmd += ["-Z", "concrete-playback", "--concrete-playback=print"]
    for h in harnesses:
        cmd += ["--harness", h]
    cmd += list(extra_args)
    env = dict(os.environ)
    env["CARGO_NET_OFFLINE"] = "true"
    env.pop("RUSTFLAGS", None)
    env.pop("RUSTUP_TOOLCHAIN", None)
    t0 = time.time()
    timed_out = False
    with open(log_path, "w") as lf:
        lf.write("$ " + " ".join(cmd) + "\n")
        lf.flush()
        p = subprocess.Popen(cmd, cwd=scratch_repo, stdout=lf, stderr=subprocess.STDOUT, env=env,
                             preexec_fn=_limits(mem_gb))
        try:
            rc = p.wait(timeout=timeout_s)
        except subprocess.TimeoutExpired:
            timed_out = True
            try:
                os.killpg(p.pid, signal.SIGKILL)
            except ProcessLookupError:
                pass
            rc = p.wait()
    wall = time.time() - t0
    with open(log_path, errors="replace") as f:
        text = f.read()
    return rc, wall, timed_out, text


def parse(text, harnesses):
    """Split a cargo-kani log into per-harness results.

    result per harness: dict(status = success|failed|error|missing, checks_total, failed = [..],
    covers = {descr: SATISFIED|UNSATISFIABLE|UNREACHABLE}, undetermined, time_s, vars, clauses, stubs)"""
    out = {}
    marks = [(m.start(), m.group(1)) for m in HARNESS_RE.finditer(text)]
    compile_error = bool(re.search(r"^error(\[E\d+\])?:", text, re.M)) and not marks
    for i, (pos, name) in enumerate(marks):
        end = marks[i + 1][0] if i + 1 < len(marks) else len(text)
        seg = text[pos:end]
        r = {"status": "error", "checks_total": 0, "failed": [], "ignored_failed": 0, "covers": {},
             "undetermined": 0, "unreachable": 0, "tagged_ok": {}, "time_s": None, "vars": None, "clauses": None,
             "unwind_failed": False}
        for m in CHECK_RE.finditer(seg):
            _, cname, status, descr, loc = m.groups()
            descr = descr.replace("\n", " ").strip().strip('"').strip('\\').strip('"')
            loc = (loc or "").strip()
            if ".cover." in cname or cname.startswith("cover") or status in ("SATISFIED", "UNSATISFIABLE"):
                r["covers"][descr + " @ " + loc.split(" in function ")[-1]] = status
                continue
            r["checks_total"] += 1
            if status == "SUCCESS" and TAG_RE.match(descr):
                r["tagged_ok"][descr] = r["tagged_ok"].get(descr, 0) + 1
            if status == "FAILURE":
                if IGNORED_DESCR.search(descr):
                    r["ignored_failed"] += 1
                    continue
                if "unwinding assertion" in descr or "recursion unwinding" in descr:
                    r["unwind_failed"] = True
                r["failed"].append({"check": cname, "description": descr, "location": loc})
            elif status == "UNDETERMINED":
                r["undetermined"] += 1
            elif status == "UNREACHABLE":
                r["unreachable"] += 1
        m = re.search(r"VERIFICATION:- (\w+)", seg)
        verdict = m.group(1) if m else None
        m = re.search(r"Verification Time: ([\d.]+)s", seg)
        if m:
            r["time_s"] = float(m.group(1))
        m = re.findall(r"(\d+) variables, (\d+) clauses", seg)
        if m:
            r["vars"], r["clauses"] = int(m[-1][0]), int(m[-1][1])
        m = re.search(r"Runtime Symex: ([\d.e+-]+)s", seg)
        if m:
            r["symex_s"] = float(m.group(1))
        m = re.findall(r"Runtime Solver: ([\d.e+-]+)s", seg)
        if m:
            r["solver_s"] = sum(float(x) for x in m)
        r["stubs"] = re.findall(r"- Stub: (.*)", seg)
        # one playback test per failing assertion and per satisfied cover: keep them by description
        pbs = []
        for pb in re.finditer(r"Concrete playback unit test for .*?```\n(.*?)```", seg, re.S):
            src = pb.group(1)
            m2 = re.search(r"/// Check for `([^`]*)`: \"(.*?)\"\s*\n", src, re.S)
            pbs.append({"kind": m2.group(1) if m2 else "", "description": (m2.group(2) if m2 else "").strip().strip('"'), "src": src})
        if pbs:
            r["playback_tests"] = pbs
            non_cover = [x for x in pbs if x["kind"] != "cover"]
            r["playback_test"] = (non_cover or pbs)[0]["src"]
        if verdict == "SUCCESSFUL":
            r["status"] = "success"
        elif verdict == "FAILED":
            if re.search(r"Status: ERROR|CBMC failed|out of memory|std::bad_alloc|Killed", seg) and not r["failed"] and not r["ignored_failed"]:
                r["status"] = "error"
            elif r["failed"] or r["undetermined"]:
                r["status"] = "failed"
            else:
                # only ignored float diagnostics failed
                r["status"] = "success" if r["ignored_failed"] else "error"
        else:
            r["status"] = "error"
        out[name] = r
    for h in harnesses:
        if h not in out:
            out[h] = {"status": "compile_error" if compile_error else "missing", "checks_total": 0,
                      "failed": [], "covers": {}, "undetermined": 0}
    return out
