"""Scratch copy of /repo with the cfg(kani) harness modules injected.

Nothing is ever written to /repo. The copy lives under /var/tmp (outside /repo
and /verif) and is removed, together with its Kani build output, when the check
ends (see Scratch.cleanup)."""
import hashlib
import os
import shutil
import subprocess
import tempfile

REPO = os.environ.get("VERIF_REPO", "/repo")
VERIF = os.path.dirname(os.path.dirname(os.path.abspath(__file__)))
HARNESS = os.path.join(VERIF, "harness")
SCRATCH_ROOT = os.environ.get("VERIF_SCRATCH_ROOT", "/var/tmp/verif-scratch")

# file in the copy -> (text to prepend, text to append)
def _mod(path, name="verif_kani", vis=""):
    # @H@ is replaced by the scratch copy of /verif/harness at injection time
    return '\n#[cfg(kani)]\n#[path = "@H@/%s"]\n%smod %s;\n' % (path, vis, name)

CRATE_ATTR = "#![cfg_attr(kani, feature(allocator_api))]\n#![cfg_attr(kani, allow(unused, static_mut_refs, clippy::all))]\n"

INJECT = {
    "crates/maybenot/src/lib.rs": (CRATE_ATTR, _mod("maybenot/export.rs", "verif", "pub ")),
    "crates/maybenot/src/framework.rs": ("", _mod("maybenot/framework_kani.rs", vis="pub(crate) ")),
    "crates/maybenot/src/state.rs": ("", _mod("maybenot/state_kani.rs", vis="pub(crate) ")),
    "crates/maybenot/src/dist.rs": ("", _mod("maybenot/dist_kani.rs", vis="pub(crate) ")),
    "crates/maybenot/src/machine.rs": ("", _mod("maybenot/machine_kani.rs", vis="pub(crate) ")),
    "crates/maybenot-simulator/src/lib.rs": (CRATE_ATTR, _mod("simulator/lib_kani.rs")),
    "crates/maybenot-simulator/src/network.rs": ("", _mod("simulator/network_kani.rs", vis="pub(crate) ")),
    "crates/maybenot-simulator/src/queue.rs": ("", _mod("simulator/queue_kani.rs", vis="pub(crate) ")),
    "crates/maybenot-ffi/src/lib.rs": (CRATE_ATTR, _mod("ffi/lib_kani.rs")),
}

# Source-level patch lines used ONLY by the native replay build (DESIGN.md 2.7). Each line is
# compiled out unless `--cfg verif_replay_stub` is given (never by the Kani verification build):
# it lets the natively compiled test link the same contract stubs that `#[kani::stub]` applies
# under CBMC. An anchor that no longer matches (signature changed) only disables that hook.
def _hook(expr):
    return "\n        #[cfg(verif_replay_stub)]\n        if let Some(r) = %s { return r; }\n" % expr

REPLAY_HOOKS = {
    "crates/maybenot/src/framework.rs": [
        ("fn transition(&mut self, mi: usize, event: Event) -> StateChange {",
         _hook("verif_kani::replay_transition_hook(self, mi, event)")),
        ("fn update_counter(&mut self, mi: usize) -> (bool, bool) {",
         _hook("verif_kani::replay_update_counter_hook(self, mi)")),
        ("fn below_action_limits(&self, runtime: &MachineRuntime<T>, machine: &Machine) -> bool {",
         _hook("verif_kani::replay_limits_hook(self, runtime, machine)")),
    ],
    "crates/maybenot/src/state.rs": [
        ("pub fn sample_state<R: RngCore>(&self, event: Event, rng: &mut R) -> Option<usize> {",
         _hook("verif_kani::replay_sample_state_hook(self, event, rng)")),
        ("pub fn validate(&self, num_states: usize) -> Result<(), Error> {",
         _hook("crate::machine::verif_kani::replay_state_validate_hook(self, num_states)")),
    ],
    "crates/maybenot/src/action.rs": [
        ("pub(crate) fn sample_timeout<R: RngCore>(&self, rng: &mut R) -> u64 {",
         _hook("crate::framework::verif_kani::replay_timeout_hook(self, rng)")),
        ("pub(crate) fn sample_duration<R: RngCore>(&self, rng: &mut R) -> u64 {",
         _hook("crate::framework::verif_kani::replay_duration_hook(self, rng)")),
        ("pub(crate) fn sample_limit<R: RngCore>(&self, rng: &mut R) -> u64 {",
         _hook("crate::framework::verif_kani::replay_limit_hook(self, rng)")),
    ],
    "crates/maybenot/src/machine.rs": [
        ("pub fn validate(&self) -> Result<(), Error> {",
         _hook("crate::framework::verif_kani::replay_machine_validate_hook(self)")),
    ],
    "crates/maybenot/src/counter.rs": [
        ("pub fn sample_value<R: RngCore>(&self, rng: &mut R) -> u64 {",
         _hook("crate::framework::verif_kani::replay_value_hook(self, rng)")),
    ],
    "crates/maybenot/src/dist.rs": [
        ("fn dist_sample<R: RngCore>(self, rng: &mut R) -> f64 {",
         _hook("verif_kani::replay_dist_hook(self, rng)")),
    ],
}


class Scratch:
    def __init__(self, keep=False):
        os.makedirs(SCRATCH_ROOT, exist_ok=True)
        self.root = tempfile.mkdtemp(prefix="run-", dir=SCRATCH_ROOT)
        self.repo = os.path.join(self.root, "repo")
        self.harness = os.path.join(self.root, "harness")
        self.keep = keep
        self.missing = []
        self._copy()
        self._inject()
        self.tree_hash = self._hash()

    def _copy(self):
        subprocess.run(
            ["rsync", "-a", "--exclude", "/target", "--exclude", ".git", REPO + "/", self.repo + "/"],
            check=True,
        )
        shutil.copytree(HARNESS, self.harness)

    def _inject(self):
        for rel, (pre, post) in INJECT.items():
            p = os.path.join(self.repo, rel)
            if not os.path.exists(p):
                self.missing.append(rel)
                continue
            with open(p) as f:
                src = f.read()
            with open(p, "w") as f:
                f.write(pre + src + post.replace("@H@", self.harness))
        for rel, hooks in REPLAY_HOOKS.items():
            p = os.path.join(self.repo, rel)
            if not os.path.exists(p):
                continue
            with open(p) as f:
                src = f.read()
            for anchor, line in hooks:
                if anchor in src:
                    src = src.replace(anchor, anchor + line, 1)
                else:
                    self.missing.append("hook anchor in %s: %s" % (rel, anchor[:50]))
            with open(p, "w") as f:
                f.write(src)
        # Kani injects `#[macro_use] extern crate kani`, which the workspace lint denies
        ct = os.path.join(self.repo, "Cargo.toml")
        with open(ct) as f:
            s = f.read()
        s = s.replace('macro_use_extern_crate = "deny"', 'macro_use_extern_crate = "allow"')
        s += '\n[workspace.lints.rust.unexpected_cfgs]\nlevel = "allow"\n' if "unexpected_cfgs" not in s else ""
        with open(ct, "w") as f:
            f.write(s)

    def _hash(self):
        h = hashlib.sha256()
        roots = [os.path.join(self.repo, "crates"), os.path.join(self.repo, "Cargo.toml"),
                 os.path.join(self.repo, "Cargo.lock"), self.harness]
        for r in roots:
            if os.path.isfile(r):
                files = [r]
            else:
                files = []
                for d, _, fs in os.walk(r):
                    for x in fs:
                        if x.endswith((".rs", ".toml", ".lock")):
                            files.append(os.path.join(d, x))
            for p in sorted(files):
                h.update(p.replace(self.root, "").encode())
                with open(p, "rb") as f:
                    # the injected #[path] lines name this run's scratch directory: normalise it
                    h.update(f.read().replace(self.root.encode(), b"@SCRATCH@"))
        return h.hexdigest()

    def target_dir(self, n):
        return os.path.join(self.root, "kt_%s" % n)

    def cleanup(self):
        if not self.keep:
            shutil.rmtree(self.root, ignore_errors=True)


def sweep_stale(max_age_s=6 * 3600):
    """Remove scratch directories left behind by killed runs."""
    import time
    if not os.path.isdir(SCRATCH_ROOT):
        return
    now = time.time()
    for d in os.listdir(SCRATCH_ROOT):
        p = os.path.join(SCRATCH_ROOT, d)
        try:
            if d.startswith("run-") and now - os.path.getmtime(p) > max_age_s:
                shutil.rmtree(p, ignore_errors=True)
        except OSError:
            pass
