"""Scratch copy of /repo with the cfg(kani) harness modules injected.

Nothing is ever written to /repo. The copy lives under /var/tmp (outside /repo
and /verif) and is removed, together with its Kani build output, when the check
ends (see Scratch.cleanup)."""
import hashlib
import os
import shutil
import subprocess
import tempfile

REPO = os.environ.get("VERIF_REPO", "/repo")
VERIF = os.path.dirname(os.path.dirname(os.path.abspath(__file__)))
HARNESS = os.path.join(VERIF, "harness")
SCRATCH_ROOT = os.environ.get("VERIF_SCRATCH_ROOT", "/var/tmp/verif-scratch")

# file in the copy -> (text to prepend, text to append)
def _mod(path, name="verif_kani", vis=""):
    # @H@ is replaced by the scratch copy of /verif/harness at injection time
    return '\n#[cfg(kani)]\n#[path = "@H@/%s"]\n%smod %s;\n' % (path, vis, name)

CRATE_ATTR = "#![cfg_attr(kani, feature(allocator_api))]\n#![cfg_attr(kani, allow(unused, static_mut_refs, clippy::all))]\n"

INJECT = {
    "crates/maybenot/src/lib.rs": (CRATE_ATTR, _mod("maybenot/export.rs", "verif", "pub ")),
    "crates/maybenot/src/framework.rs": ("", _mod("maybenot/framework_kani.rs", vis="pub(crate) ")),
    "crates/maybenot/src/state.rs": ("", _mod("maybenot/state_kani.rs", vis="pub(crate) ")),
    "crates/maybenot/src/dist.rs": ("", _mod("maybenot/dist_kani.rs", vis="pub(crate) ")),
    "crates/maybenot/src/machine.rs": ("", _mod("maybenot/machine_kani.rs", vis="pub(crate) ")),
    "crates/maybenot-simulator/src/lib.rs": (CRATE_ATTR, _mod("simulator/lib_kani.rs")),
    "crates/maybenot-simulator/src/network.rs": ("", _mod("simulator/network_kani.rs")),
    "crates/maybenot-simulator/src/queue.rs": ("", _mod("simulator/queue_kani.rs", vis="pub(crate) ")),
    "crates/maybenot-ffi/src/lib.rs": (CRATE_ATTR, _mod("ffi/lib_kani.rs")),
}

# source-level patch used ONLY by the native replay build of contract harnesses
# (see DESIGN.md 2.7): the first statement of `fn transition` defers to the
# natively compiled contract stub when the replay asks for it.
REPLAY_STUB_ANCHOR = "fn transition(&mut self, mi: usize, event: Event) -> StateChange {"
REPLAY_STUB_LINE = (
    "\n        #[cfg(verif_replay_stub)]\n"
    "        if let Some(r) = verif_kani::replay_transition_hook(self, mi, event) { return r; }\n"
)


class Scratch:
    def __init__(self, keep=False):
        os.makedirs(SCRATCH_ROOT, exist_ok=True)
        self.root = tempfile.mkdtemp(prefix="run-", dir=SCRATCH_ROOT)
        self.repo = os.path.join(self.root, "repo")
        self.harness = os.path.join(self.root, "harness")
        self.keep = keep
        self.missing = []
        self._copy()
        self._inject()
        self.tree_hash = self._hash()

    def _copy(self):
        subprocess.run(
            ["rsync", "-a", "--exclude", "/target", "--exclude", ".git", REPO + "/", self.repo + "/"],
            check=True,
        )
        shutil.copytree(HARNESS, self.harness)

    def _inject(self):
        for rel, (pre, post) in INJECT.items():
            p = os.path.join(self.repo, rel)
            if not os.path.exists(p):
                self.missing.append(rel)
                continue
            with open(p) as f:
                src = f.read()
            if rel.endswith("framework.rs") and REPLAY_STUB_ANCHOR in src:
                src = src.replace(REPLAY_STUB_ANCHOR, REPLAY_STUB_ANCHOR + REPLAY_STUB_LINE, 1)
            with open(p, "w") as f:
                f.write(pre + src + post.replace("@H@", self.harness))
        # Kani injects `#[macro_use] extern crate kani`, which the workspace lint denies
        ct = os.path.join(self.repo, "Cargo.toml")
        with open(ct) as f:
            s = f.read()
        s = s.replace('macro_use_extern_crate = "deny"', 'macro_use_extern_crate = "allow"')
        s += '\n[workspace.lints.rust.unexpected_cfgs]\nlevel = "allow"\n' if "unexpected_cfgs" not in s else ""
        with open(ct, "w") as f:
            f.write(s)

    def _hash(self):
        h = hashlib.sha256()
        roots = [os.path.join(self.repo, "crates"), os.path.join(self.repo, "Cargo.toml"),
                 os.path.join(self.repo, "Cargo.lock"), self.harness]
        for r in roots:
            if os.path.isfile(r):
                files = [r]
            else:
                files = []
                for d, _, fs in os.walk(r):
                    for x in fs:
                        if x.endswith((".rs", ".toml", ".lock")):
                            files.append(os.path.join(d, x))
            for p in sorted(files):
                h.update(p.replace(self.root, "").encode())
                with open(p, "rb") as f:
                    h.update(f.read())
        return h.hexdigest()

    def target_dir(self, n):
        return os.path.join(self.root, "kt_%s" % n)

    def cleanup(self):
        if not self.keep:
            shutil.rmtree(self.root, ignore_errors=True)


def sweep_stale(max_age_s=6 * 3600):
    """Remove scratch directories left behind by killed runs."""
    import time
    if not os.path.isdir(SCRATCH_ROOT):
        return
    now = time.time()
    for d in os.listdir(SCRATCH_ROOT):
        p = os.path.join(SCRATCH_ROOT, d)
        try:
            if d.startswith("run-") and now - os.path.getmtime(p) > max_age_s:
                shutil.rmtree(p, ignore_errors=True)
        except OSError:
            pass
