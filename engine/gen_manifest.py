#!/usr/bin/env python3
"""Regenerates /verif/MANIFEST.json from the job inventory (run after editing engine/jobs.py)."""
import json, os, sys
sys.path.insert(0, os.path.dirname(os.path.abspath(__file__)))
import jobs as J

TECH = "solver-based: Kani 0.68 / CBMC 6.11 bounded model checking of the real Rust code (symbolic inputs, unwinding assertions on), "
LEVEL = {
 "C01": ("L1 (one machine step, split over its CounterZero recursion) and L2 (one trigger_events call over the transition contract, plus a two-event batch) from every Inv-state: no panic / overflow / out-of-bounds, recursion bounded by the two per-machine flags (asserted measure), work bound (events+1)x(machines+1) on the ghost step counter; Framework::new establishes Inv; validated targets are in range; std-clock BlockingEnd (known finding F5); inductive over call histories.", "3 C01"),
 "C02": ("L0: the real padding predicate equals the statement for all fractions, budgets and limits over every combination of small concrete packet counts; L1: a SendPadding is scheduled only when the predicate allows it; L2: the packet counts every machine step sees are the harness' independent recount including the current event.", "3 C02"),
 "C03": ("L1: a BlockOutgoing is scheduled only when the blocking predicate allows it; L2: ghost blocked-time accounting (saturating, clock may run backwards) equals the framework's at every step and after the call.", "3 C03"),
 "C04": ("L0 one-day clamp for any f64 sampler result; L1 slot well-formedness (own machine, kind/flags of a state's action, END absorbing); L2 slots reset per call, iterator yields exactly the scheduled actions with distinct ids < M, none for M = 0.", "3 C04"),
 "C05": ("differential: real transition / update_counter against a reference step written from the documentation, same random tape, from every Inv-state (equal state, limit, counters, slot, signal, draws); L2: machines stepped only with the reported event, in index order, LimitReached immediately, one signal round last. Bounded families, no sampling.", "3 C05"),
 "C06": ("L0: sample_state against the share oracle for EVERY 32-bit random word and every well-formed row of K<=2 (thorough K<=4) alternatives; exact threshold form as a second kernel.", "3 C06"),
 "C07": ("L0 sample_limit contract; L1 resample-on-change / keep-on-self-transition / no limited action at limit 0; L2 decrement exactly on own completion without state change, LimitReached exactly when due and immediately, withdrawal, other ids never consume.", "3 C07"),
 "C08": ("L1b: real update_counter equals the saturating reference for all u64 values and all 3x3 counter specs, CounterZero raised exactly on non-zero -> zero once per counter of that machine per call (pair harness with a neighbour), its action wins.", "3 C08"),
 "C09": ("L1: the pending-signal rule; L2 (M = 2, thorough 3): from the ghost record of Signal deliveries, for every behaviour of the machines allowed by the transition contract, the exactly-once / lone-signaller / answered-signal clauses, and no signal left pending.", "3 C09"),
 "C10": ("frame conditions at L1 (a step touches only its machine, its slot, the signal, its own flags), pair harness (a machine's counter update is independent of a neighbour), L2 (outside its own steps a machine never changes; addressed events reach only their machine).", "3 C10"),
 "C12": ("L0: Machine::validate = fractions real in [0,1] (any f64 bit pattern incl. NaN), >= 1 state, every state judged with the machine's state count, any rejected state rejects the machine. Row/distribution judgements: see level_note.", "3 C12"),
 "C13": ("L0: Dist::sample for any sampler result (any f64) and any start/max is real, >= 0, <= max; consumers total; real Uniform arm: low == high returns low without drawing, low < high with a word whose top two bits are clear returns in one iteration inside [low, high).", "3 C13"),
 "C14": ("step contracts without machines: NormalSent -> one TunnelSent at the same time; TunnelSent -> one TunnelRecv on the other side at exactly time + network delay, same kind; TunnelRecv -> one Normal/PaddingRecv; pick_next pops the earliest of two queued packets (client first on ties) without shifting it in time. Whole runs are composed from these steps by an argument that is not itself verified.", "3 C14"),
 "C15": ("step contracts: every packet event produces exactly one follow-up event of the same kind (conservation), padding replace re-labels the queued normal packet instead of adding one, TunnelRecv not before TunnelSent + delay, pick_next consumes exactly the event it returns.", "3 C15"),
 "C19": ("NetworkBottleneck::new total for every packets-per-second limit >= 1 (division-by-zero defect fixed); pick_next never returns an event before the current time on two-packet queues; every untagged panic / overflow / failed internal assertion in any simulator harness is reported under this property. Run-twice equality and global termination are whole-program properties outside the technique.", "3 C19"),
 "C16": ("step contracts of do_scheduled_action(BlockOutgoing) (expiry rule, bypass rule, BlockingBegin) and peek_blocked_exp from arbitrary small states; two genuine defects are listed known findings.", "3 C16"),
 "C17": ("step contracts: trigger_update stores the returned action with due time now+timeout (overwrite, cancels), do_scheduled_action fires exactly the due slot once, peek_scheduled_action never lets time pass a due action.", "3 C17"),
 "C18": ("step contracts: trigger_update(UpdateTimer) sets/keeps the timer and reports TimerBegin exactly per the contract, cancels clear it, do_internal_timer reports TimerEnd once at the expiry.", "3 C18"),
 "C20": ("convert_action / convert_event for every value, null-pointer paths, error codes.", "3 C20"),
}
NOTE = {
 "C02": "Assumes Inv (DESIGN 2.4). The f64 quotients are decided only for packet counts 0..=2 per operand (27 combinations, operands concrete so that the quotient folds; fractions, budgets and limits fully symbolic): a defect that shows only for larger counts (e.g. u64->f64 rounding above 2^53) is outside the claim. L1 uses the predicate through its proven form 'state_limit > 0 AND constant-per-step'. One call = one event.",
 "C03": "As C02 for below_limit_blocking (36 combinations of accumulated / ongoing / elapsed microseconds 0..=3). The virtual clock saturates; the std::time overflow (F5) is decided separately by k_blocking_end_std (known finding).",
 "C12": "Row judgement decided with HashSet::insert stubbed to a no-op (targets assumed pairwise distinct: the duplicate-target clause is NOT decided); from_str applying the same judgement is read off the source (it ends in Machine::validate), not decided by a solver query; Poisson/Gamma/Beta/Geometric validators only in the thorough tier.",
 "C14": "NetworkBottleneck::sample is replaced by its no-limit contract (delay, None) in the TunnelSent step (the real function with its VecDeque window runs CBMC out of memory); the trace-derived limit never being exceeded is therefore assumed, not decided. parse_trace is not covered.",
}
DEFAULT_NOTE = "Trusted: Kani's MIR->goto translation, CBMC, CaDiCaL; the harness oracles (transcriptions of the property text); environment models and stubs listed in the evidence; Inv (DESIGN 2.4). Nothing is claimed outside the stated bounds."
NA = [
 ("C11", "round-trip and hostile-input safety run through zlib, base64, bincode/serde and SHA-256, whose input-length-dependent loops and symbolic-length allocations are outside bit-blasting reach (bincode round trip: timeout 900 s; parse_v1 on 333 symbolic bytes: symex not finished in 20 min); the memory bound is a resource property, not an assertion over inputs"),
]

def main():
    checks = []
    claimed = []
    for i in range(1, 21):
        pid = "C%02d" % i
        if not J.jobs_for(pid, "quick") or pid not in LEVEL:
            continue
        claimed.append(pid)
        text, ref = LEVEL[pid]
        checks.append({
            "property_id": pid,
            "quick_cmd": "./check %s --tier quick" % pid,
            "thorough_cmd": "./check %s --tier thorough" % pid,
            "evidence_file": "/verif/evidence/%s.json" % pid,
            "replay_cmd_template": "./check %s --replay {path}" % pid,
            "engine": "kani-engine",
            "level_claimed": {"category": "model_checking", "text": text, "design_ref": "DESIGN.md section " + ref},
            "level_note": NOTE.get(pid, "") + (" " if pid in NOTE else "") + DEFAULT_NOTE,
            "technique": TECH + "quick jobs: " + ", ".join(j.name for j in J.jobs_for(pid, "quick")),
        })
    m = {
        "version": 1,
        "setup_cmd": "./check --setup",
        "hooks": {
            "guard": "cfg(kani)",
            "enable": "none in /repo: every check rsyncs /repo to a scratch copy under /var/tmp, appends '#[cfg(kani)] #[path=...] mod verif_kani;' lines (and cfg(verif_replay_stub) replay hooks) to the COPY and runs cargo kani there",
            "baseline_off_cmd": "cd /repo && cargo test --workspace --no-fail-fast --offline",
            "source_commits": [],
            "add_only": True,
        },
        "engines": [{
            "name": "kani-engine", "path": "/verif/engine/main.py", "serves_properties": claimed,
            "kind_free_text": "bounded model checking of the real Rust code with Kani/CBMC: symbolic inputs, property = assertion, SAT verdict per harness; compositional contracts; native replay of counterexamples",
        }],
        "checks": checks,
        "notes": "fix: commits in /repo: see known_findings.json ('fixed'); unrepaired genuine defects are listed there as findings and reported as KNOWN-FINDING lines.",
        "not_applicable": [{"property_id": p, "reason": r} for p, r in NA if p not in claimed],
    }
    with open(os.path.join(os.path.dirname(os.path.dirname(os.path.abspath(__file__))), "MANIFEST.json"), "w") as f:
        json.dump(m, f, indent=1)
    print("claimed:", claimed)

if __name__ == "__main__":
    main()
