#!/usr/bin/env python3
"""./check <ID> [--tier quick|thorough]     decide property <ID> on /repo's current working tree
   ./check <ID> --replay <path>              re-run a recorded counterexample natively
   ./check --setup                           warm the Kani dependency build (MANIFEST.setup_cmd)
   ./check --job <harness> [...]             run single jobs (development aid)

Solver-based checking: every verdict is CBMC/CaDiCaL's answer on the goto-program Kani
compiles from a scratch copy of /repo (see DESIGN.md)."""
import argparse
import concurrent.futures as cf
import fcntl
import hashlib
import json
import os
import re
import shutil
import subprocess
import sys
import time

sys.path.insert(0, os.path.dirname(os.path.abspath(__file__)))
import jobs as J  # noqa: E402
import kani  # noqa: E402
import scratch as S  # noqa: E402

VERIF = S.VERIF
CACHE = os.path.join(VERIF, ".cache")
SLOTS_DIR = "/var/tmp/verif-slots"
NSLOTS = int(os.environ.get("VERIF_SLOTS", "8"))
# an assertion message starts with the property (or properties) whose statement it transcribes:
#   "C07(b): ..."   or   "C07(b)/C10: ..."
TAG_RE = re.compile(r"^(C\d\d(?:\([a-z0-9]+\))?(?:/C\d\d(?:\([a-z0-9]+\))?)*):")


def log(*a):
    print(*a, file=sys.stderr, flush=True)


# ------------------------------------------------------------------ global slots (all check processes)
class Slots:
    def __init__(self, n):
        os.makedirs(SLOTS_DIR, exist_ok=True)
        self.n = n
        self.held = []

    def acquire(self, k=1):
        got = []
        while len(got) < k:
            for i in range(NSLOTS):
                if len(got) >= k:
                    break
                p = os.path.join(SLOTS_DIR, "slot-%d" % i)
                fd = os.open(p, os.O_CREAT | os.O_RDWR, 0o666)
                try:
                    fcntl.flock(fd, fcntl.LOCK_EX | fcntl.LOCK_NB)
                    got.append(fd)
                except OSError:
                    os.close(fd)
            if len(got) < k:
                # release partial holdings to avoid deadlock between processes
                for fd in got:
                    os.close(fd)
                got = []
                time.sleep(0.5 + 0.5 * (os.getpid() % 7) / 7.0)
        return got

    @staticmethod
    def release(fds):
        for fd in fds:
            try:
                os.close(fd)
            except OSError:
                pass


# ------------------------------------------------------------------ verdict cache (content addressed)
def cache_key(tree_hash, job, playback=False):
    h = hashlib.sha256()
    h.update(tree_hash.encode())
    h.update(job.path.encode())
    h.update(str((job.cap_s, job.mem_gb, playback, job.kargs)).encode())
    return h.hexdigest()[:40]


def cache_get(key):
    if os.environ.get("VERIF_NO_CACHE") == "1":
        return None
    p = os.path.join(CACHE, "verdicts", key + ".json")
    try:
        with open(p) as f:
            r = json.load(f)
        if time.time() - r.get("_stored_at", 0) > 12 * 3600:
            return None
        return r
    except (OSError, ValueError):
        return None


def cache_put(key, r):
    d = os.path.join(CACHE, "verdicts")
    os.makedirs(d, exist_ok=True)
    r = dict(r)
    r["_stored_at"] = time.time()
    tmp = os.path.join(d, key + ".tmp%d" % os.getpid())
    with open(tmp, "w") as f:
        json.dump(r, f)
    os.replace(tmp, os.path.join(d, key + ".json"))


# ------------------------------------------------------------------ template target dir
def template_dir(pkg):
    return os.path.join(CACHE, "kt_template", pkg)


def warm_template(sc, pkg, force=False):
    """One dependency build per package; worker target dirs are copies of it."""
    td = template_dir(pkg)
    stamp = os.path.join(td, ".verif_ok")
    lock = os.path.join(CACHE, "kt_template.%s.lock" % pkg)
    os.makedirs(CACHE, exist_ok=True)
    with open(lock, "w") as lf:
        fcntl.flock(lf, fcntl.LOCK_EX)
        if os.path.exists(stamp) and not force:
            return td
        shutil.rmtree(td, ignore_errors=True)
        os.makedirs(td, exist_ok=True)
        warm = {J.FFI: "verif_kani::f_convert_event", J.MB: "dist::verif_kani::k_warm",
                J.SIM: "verif_kani::s_warm"}[pkg]
        rc, wall, to, text = kani.run_batch(sc.repo, pkg, [warm], td, 1200, 24,
                                            os.path.join(sc.root, "warm_%s.log" % pkg))
        if rc == 0 and "VERIFICATION:- SUCCESSFUL" in text:
            with open(stamp, "w") as f:
                f.write(str(time.time()))
            log("[setup] template for %s built in %.0fs" % (pkg, wall))
        else:
            log("[setup] template build for %s failed (rc=%s); jobs will build on their own" % (pkg, rc))
            log(text[-2000:])
            shutil.rmtree(td, ignore_errors=True)
    return td


# ------------------------------------------------------------------ running jobs
def run_group(sc, slots, idx, group_jobs, playback=False):
    """Run the (uncached) jobs of one group in one cargo-kani invocation."""
    pkg = group_jobs[0].pkg
    td = sc.target_dir("%s_%d" % (group_jobs[0].group, idx))
    tpl = template_dir(pkg)
    if os.path.exists(os.path.join(tpl, ".verif_ok")):
        subprocess.run(["cp", "-a", tpl, td], check=False)
    cap = sum(j.cap_s for j in group_jobs) + 240
    mem = max(j.mem_gb for j in group_jobs)
    nslots = max(j.slots for j in group_jobs)
    fds = slots.acquire(nslots)
    try:
        logp = os.path.join(sc.root, "log_%s_%d%s.txt" % (group_jobs[0].group, idx, "_pb" if playback else ""))
        rc, wall, timed_out, text = kani.run_batch(
            sc.repo, pkg, [j.path for j in group_jobs], td, cap, mem, logp, playback=playback,
            extra_args=group_jobs[0].kargs)
    finally:
        slots.release(fds)
        shutil.rmtree(td, ignore_errors=True)
    res = kani.parse(text, [j.path for j in group_jobs])
    out = {}
    for j in group_jobs:
        r = res[j.path]
        r["job"] = j.name
        r["wall_group_s"] = round(wall, 1)
        if r["status"] in ("missing", "error"):
            if timed_out:
                r["status"] = "timeout"
            elif re.search(r"out of memory|bad_alloc|memory exhausted|SIGKILL|Cannot allocate", text):
                r["status"] = "oom"
            elif re.search(r"^error(\[E\d+\])?:|error: could not compile|internal compiler error|Kani unexpectedly panicked", text, re.M):
                r["status"] = "compile_error"
                r["compile_error_tail"] = "\n".join(
                    [l for l in text.splitlines() if l.startswith("error")][:8])
        if r.get("time_s") and r["time_s"] > j.cap_s and r["status"] == "success":
            pass
        r["log_tail"] = text[-1500:] if r["status"] not in ("success", "failed") else ""
        out[j.name] = r
    return out


def run_jobs(sc, joblist, playback=False):
    slots = Slots(NSLOTS)
    results = {}
    todo = {}
    for j in joblist:
        key = cache_key(sc.tree_hash, j, playback)
        c = cache_get(key)
        if c is not None and c.get("status") in ("success", "failed"):
            c["from_cache"] = True
            results[j.name] = c
        else:
            todo.setdefault(j.group, []).append(j)
    pkgs = sorted({j.pkg for js in todo.values() for j in js})
    for p in pkgs:
        warm_template(sc, p)
    groups = list(todo.values())
    seed = int(os.environ.get("VERIF_SEED", "0") or 0)
    if seed:
        import random
        random.Random(seed).shuffle(groups)
    # long jobs first
    groups.sort(key=lambda g: -sum(j.cap_s for j in g))
    with cf.ThreadPoolExecutor(max_workers=NSLOTS) as ex:
        futs = {ex.submit(run_group, sc, slots, i, g, playback): g for i, g in enumerate(groups)}
        for f in cf.as_completed(futs):
            g = futs[f]
            try:
                out = f.result()
            except Exception as e:  # machinery failure
                out = {j.name: {"status": "error", "failed": [], "covers": {}, "checks_total": 0,
                                "log_tail": repr(e), "job": j.name} for j in g}
            for j in g:
                r = out[j.name]
                r["from_cache"] = False
                results[j.name] = r
                if r["status"] in ("success", "failed"):
                    cache_put(cache_key(sc.tree_hash, j, playback), r)
                log("[job] %-34s %-13s checks=%-6s failed=%d time=%ss" % (
                    j.name, r["status"], r.get("checks_total"), len(r.get("failed", [])), r.get("time_s")))
    return results


# ------------------------------------------------------------------ findings
def load_known():
    p = os.path.join(VERIF, "known_findings.json")
    try:
        with open(p) as f:
            return json.load(f)
    except OSError:
        return {"findings": [], "fixed": []}


def owners_of(failure, job):
    """properties that own a failing check: the tags of the assertion, the job's umbrella
    properties (`also`: e.g. C05 = conformance to the documented semantics owns every semantic
    assertion of the framework harnesses), or the job's owner for untagged failures"""
    m = TAG_RE.match(failure["description"])
    if m:
        return [re.sub(r"\(.*?\)", "", t) for t in m.group(1).split("/")] + list(getattr(job, "also", []))
    return [job.owner]


def owner_of(failure, job):
    return owners_of(failure, job)[0]


def signature(failure, job, pid=None):
    """Role-keyed signature: property, harness family, what failed and in which function."""
    fn = failure.get("location", "").split(" in function ")[-1].strip()
    fn = re.sub(r"::<.*", "", fn)
    descr = failure["description"]
    m = TAG_RE.match(descr)
    if m:
        what = descr.split(":", 1)[-1].strip()
    else:
        what = descr
    what = re.sub(r"[^A-Za-z0-9]+", "-", what).strip("-")[:80]
    fam = re.sub(r"(_[smkb]\d+)+$", "", job.name)
    return "%s:%s:%s:%s" % (pid or owner_of(failure, job), fam, fn.split("::")[-1], what)


def match_known(sig, failure, job, known):
    for k in known.get("findings", []):
        if k.get("property") not in owners_of(failure, job):
            continue
        if re.search(k["harness_regex"], job.name) and re.search(k["description_regex"], failure["description"]) \
                and re.search(k.get("function_regex", ""), failure.get("location", "")):
            return k
    return None


# ------------------------------------------------------------------ replay
def module_file(job):
    """harness source file (relative to /verif/harness) that defines the module of a job"""
    m = job.module
    table = [
        (J.MB, "framework::verif_kani::l2", "maybenot/l2.rs"),
        (J.MB, "framework::verif_kani::fam", "maybenot/l1_family.rs"),
        (J.MB, "framework::verif_kani", "maybenot/framework_kani.rs"),
        (J.MB, "state::verif_kani", "maybenot/state_kani.rs"),
        (J.MB, "dist::verif_kani", "maybenot/dist_kani.rs"),
        (J.MB, "machine::verif_kani", "maybenot/machine_kani.rs"),
        (J.SIM, "network::verif_kani", "simulator/network_kani.rs"),
        (J.SIM, "queue::verif_kani", "simulator/queue_kani.rs"),
        (J.SIM, "verif_kani", "simulator/lib_kani.rs"),
        (J.FFI, "verif_kani", "ffi/lib_kani.rs"),
    ]
    for pkg, prefix, f in table:
        if job.pkg == pkg and m.startswith(prefix):
            return f
    raise KeyError((job.pkg, m))


def native_replay(sc, job, test_src):
    """Compile the counterexample as an ordinary unit test of the scratch copy and run it natively
    (rustc, no CBMC): kani::any() replays the recorded bytes; contract stubs are linked in through
    the cfg(verif_replay_stub) hook lines. Returns (reproduced: bool|None, log_tail)."""
    m = re.search(r"fn (kani_concrete_playback_\w+)", test_src)
    if not m:
        return None, "no playback test emitted"
    tname = m.group(1)
    # append the test to the scratch copy of the harness module
    mod_file = module_file(job)
    hp = os.path.join(sc.harness, mod_file)
    with open(hp) as f:
        orig = f.read()
    outs = []
    ok = None
    try:
        with open(hp, "a") as f:
            f.write("\n" + test_src + "\n")
        for profile in ([],):
            env = dict(os.environ)
            env["CARGO_NET_OFFLINE"] = "true"
            env["RUSTFLAGS"] = "--cfg verif_replay_stub"
            env["CARGO_TARGET_DIR"] = sc.target_dir("replay")
            cmd = ["cargo", "kani", "playback", "-Z", "concrete-playback", "-p", job.pkg] + profile + ["--", tname, "--nocapture", "--test-threads=1"]
            try:
                p = subprocess.run(cmd, cwd=sc.repo, env=env, stdout=subprocess.PIPE, stderr=subprocess.STDOUT,
                                   timeout=900, text=True, errors="replace")
                out = p.stdout
            except subprocess.TimeoutExpired:
                out = "timeout"
            outs.append("$ %s\n%s" % (" ".join(cmd), out[-3000:]))
            # a failing assertion panics; the typed-array Vec views of the harnesses cannot be unwound
            # (free() of a stack buffer aborts the test process), so the panic message is the witness
            pm = re.search(r"panicked at ([^\n]*):\n([^\n]*)", out)
            ran = re.search(r"test .*%s .*\.\.\. (FAILED|ok)" % tname, out)
            if pm:
                ok = True
                outs.append("PANIC: %s | %s" % (pm.group(1), pm.group(2)))
            elif ran and ran.group(1) == "ok" and ok is None:
                ok = False
    finally:
        with open(hp, "w") as f:
            f.write(orig)
        shutil.rmtree(sc.target_dir("replay"), ignore_errors=True)
    return ok, "\n".join(outs)


# ------------------------------------------------------------------ evidence + verdict
def check_property(pid, tier, keep=False):
    t0 = time.time()
    joblist = J.jobs_for(pid, tier)
    if not joblist:
        log("no jobs registered for %s" % pid)
        return 2
    S.sweep_stale()
    sc = S.Scratch(keep=keep)
    exit_code = 0
    lines = []
    try:
        if sc.missing:
            log("[warn] files missing in /repo (renamed?): %s" % sc.missing)
        results = run_jobs(sc, joblist)
        known = load_known()
        violations = []      # (job, failure, sig)
        foreign = []
        inconclusive = []
        for j in joblist:
            r = results[j.name]
            if r["status"] not in ("success", "failed"):
                inconclusive.append((j, r))
                continue
            for fl in r.get("failed", []):
                if pid in owners_of(fl, j):
                    violations.append((j, fl, signature(fl, j, pid)))
                else:
                    foreign.append((j.name, owner_of(fl, j), fl["description"]))
            if r.get("undetermined"):
                inconclusive.append((j, r))
        # ---- counterexamples: playback + native replay
        reported = []
        machinery_fail = False
        by_job = {}
        for (j, fl, sig) in violations:
            by_job.setdefault(j.name, []).append((fl, sig))
        for jn, fls in by_job.items():
            j = J.by_name(jn)
            kn = [match_known(sig, fl, j, known) for fl, sig in fls]
            replay_dir = os.path.join(os.environ.get("VERIF_REPLAY_DIR", os.path.join(VERIF, "replays")), pid)
            os.makedirs(replay_dir, exist_ok=True)
            rp = os.path.join(replay_dir, "%s.json" % j.name)
            rec = {"property": pid, "harness": j.path, "package": j.pkg, "tier": tier,
                   "failed_checks": [dict(fl, signature=sig) for fl, sig in fls],
                   "repo_tree_hash": sc.tree_hash, "time": time.strftime("%Y-%m-%dT%H:%M:%SZ", time.gmtime())}
            reproduced = None
            if all(kn):
                # every failing assertion of this harness is a listed finding: do not spend a re-solve
                rec["replay"] = "skipped (all failures are listed known findings)"
            else:
                only_unwind = all("unwinding" in fl["description"] for fl, _ in fls)
                if only_unwind:
                    rec["replay"] = "none (Kani emits no concrete playback for unwinding assertions)"
                    reproduced = True
                else:
                    pb = run_jobs(sc, [j], playback=True)[j.name]
                    test_src = pb.get("playback_test")
                    # prefer the playback generated for one of THIS property's failing assertions
                    wanted = [fl["description"] for fl, _ in fls]
                    for t in pb.get("playback_tests", []):
                        if t["kind"] != "cover" and any(t["description"].strip('"') == w for w in wanted):
                            test_src = t["src"]
                            break
                    rec["playback_test"] = test_src
                    if test_src:
                        reproduced, rlog = native_replay(sc, j, test_src)
                        rec["native_replay_log_tail"] = rlog[-4000:]
                    rec["native_replay_reproduced"] = reproduced
            with open(rp, "w") as f:
                json.dump(rec, f, indent=1)
            for (fl, sig), k in zip(fls, kn):
                if k:
                    lines.append("KNOWN-FINDING: property=%s %s [%s]" % (pid, k["what"], k["signature"]))
                    reported.append({"signature": sig, "known": k["signature"], "description": fl["description"]})
                elif reproduced is False:
                    machinery_fail = True
                    lines.append("INCONCLUSIVE: property=%s counterexample for '%s' did not reproduce natively (%s)"
                                 % (pid, fl["description"], rp))
                else:
                    exit_code = 1
                    lines.append("VIOLATION property=%s replay=%s" % (pid, rp))
                    lines.append("  harness=%s assertion=\"%s\" at %s signature=%s native_replay=%s" % (
                        j.path, fl["description"], fl.get("location", ""), sig,
                        {True: "reproduced", None: "not-run"}.get(reproduced)))
                    reported.append({"signature": sig, "description": fl["description"]})
        if exit_code == 0 and machinery_fail:
            exit_code = 2
        decided = [j for j in joblist if results[j.name]["status"] in ("success", "failed")]
        if not decided:
            exit_code = exit_code or 2
        write_evidence(pid, tier, joblist, results, reported, inconclusive, foreign, time.time() - t0,
                       sc.tree_hash, exit_code)
        for j, r in inconclusive:
            lines.append("INCONCLUSIVE: job %s status=%s %s" % (
                j.name, r["status"], (r.get("compile_error_tail") or "")[:300].replace("\n", " | ")))
    finally:
        sc.cleanup()
    seen = set()
    for l in lines:
        if l not in seen:
            print(l)
            seen.add(l)
    print("%s tier=%s jobs=%d exit=%d wall=%.0fs" % (pid, tier, len(joblist), exit_code, time.time() - t0))
    return exit_code


def write_evidence(pid, tier, joblist, results, reported, inconclusive, foreign, wall, tree_hash, exit_code):
    evaluations = 0
    nontrivial = set()
    samples = []
    solver_s = 0.0
    stubs = set()
    n_cached = 0
    for j in joblist:
        r = results[j.name]
        ok = r["status"] in ("success", "failed")
        if ok:
            evaluations += r.get("checks_total", 0)
            for d, st in r.get("covers", {}).items():
                if st == "SATISFIED":
                    nontrivial.add((j.name, d))
            for d in r.get("tagged_ok", {}):
                if TAG_RE.match(d) and (pid in TAG_RE.match(d).group(1) or pid in getattr(j, "also", [])):
                    nontrivial.add((j.name, d))
        solver_s += (r.get("time_s") or 0)
        for s in r.get("stubs", []):
            stubs.add(s.strip())
        n_cached += 1 if r.get("from_cache") else 0
        samples.append({
            "harness": j.path, "package": j.pkg, "status": r["status"],
            "functions_encoded": j.encodes, "bounds": j.bounds,
            "solver_checks": r.get("checks_total"), "failed_checks": [f["description"] for f in r.get("failed", [])],
            "ignored_float_diagnostics": r.get("ignored_failed", 0),
            "undetermined": r.get("undetermined", 0),
            "cover_witnesses": r.get("covers", {}),
            "property_assertions_discharged": {d: n for d, n in r.get("tagged_ok", {}).items()
                                               if TAG_RE.match(d) and (pid in TAG_RE.match(d).group(1)
                                                                       or pid in getattr(j, "also", []))},
            "sat_variables": r.get("vars"), "sat_clauses": r.get("clauses"),
            "verification_time_s": r.get("time_s"), "symex_s": r.get("symex_s"), "solver_s": r.get("solver_s"),
            "reused_from_cache": bool(r.get("from_cache")), "cap_s": j.cap_s, "mem_gb": j.mem_gb,
            "replay_class": j.cls,
        })
    unsat_covers = sorted({"%s: %s" % (j.name, d) for j in joblist
                           for d, st in results[j.name].get("covers", {}).items() if st != "SATISFIED"})
    ev = {
        "property_id": pid, "tier": tier, "seed": int(os.environ.get("VERIF_SEED", "0") or 0),
        "level": "model_checking",
        "coverage": {
            "evaluations": evaluations,
            "distinct_nontrivial": len(nontrivial),
            "rule": ("bounded model checking of the real code: evaluations = assertion/overflow/bounds/unwinding "
                     "checks decided by CBMC+CaDiCaL over all symbolic inputs of the harnesses that finished; "
                     "distinct_nontrivial = distinct (harness, obligation) pairs that are either a %s-tagged "
                     "assertion decided on a reachable path or a satisfied kani::cover! reachability witness "
                     "(vacuity guard); unreachable or unsatisfied ones are not counted" % pid),
            "samples": samples,
            "exhaustive": False,
            "jobs_total": len(joblist),
            "jobs_decided": sum(1 for j in joblist if results[j.name]["status"] in ("success", "failed")),
            "jobs_inconclusive": [{"job": j.name, "status": r["status"]} for j, r in inconclusive],
            "jobs_reused_from_cache": n_cached,
            "unsatisfied_cover_witnesses": unsat_covers,
            "failures_owned_by_other_properties": [list(x) for x in foreign],
            "reported": reported,
            "sum_verification_time_s": round(solver_s, 1),
            "stubs_applied": sorted(stubs),
            "repo_tree_hash": tree_hash,
            "engine": "Kani 0.68.0 / CBMC 6.11.0 / CaDiCaL, unwinding assertions on",
            "exit_code": exit_code,
        },
        "assumptions": ASSUMPTIONS.get(pid, []) + COMMON_ASSUMPTIONS,
        "wall_s": round(wall, 1),
        "violations": sum(1 for r in reported if "known" not in r),
    }
    evdir = os.environ.get("VERIF_EVIDENCE_DIR", os.path.join(VERIF, "evidence"))
    os.makedirs(evdir, exist_ok=True)
    p = os.path.join(evdir, "%s.json" % pid)
    tmp = p + ".tmp%d" % os.getpid()
    with open(tmp, "w") as f:
        json.dump(ev, f, indent=1)
    os.replace(tmp, p)


COMMON_ASSUMPTIONS = [
    "Kani MIR->goto translation, CBMC bit-precise semantics (IEEE-754, saturating casts), CaDiCaL",
    "dev-profile semantics (integer overflow checks on); allocation never fails (--no-malloc-may-fail model)",
    "claims hold only inside the bounds listed per sample; nothing is claimed outside them",
]
ASSUMPTIONS = {}
try:
    from assumptions import ASSUMPTIONS as _A  # noqa: E402
    ASSUMPTIONS.update(_A)
except ImportError:
    pass


def main():
    ap = argparse.ArgumentParser()
    ap.add_argument("pid", nargs="?")
    ap.add_argument("--tier", default=os.environ.get("VERIF_TIER", "quick"), choices=["quick", "thorough"])
    ap.add_argument("--replay")
    ap.add_argument("--setup", action="store_true")
    ap.add_argument("--job", nargs="*")
    ap.add_argument("--keep", action="store_true")
    ap.add_argument("--kargs", default=None, help="development aid: override extra cargo-kani flags")
    a = ap.parse_args()
    if a.setup:
        sc = S.Scratch()
        try:
            for p in (J.MB, J.FFI, J.SIM):
                warm_template(sc, p, force=True)
        finally:
            sc.cleanup()
        return 0
    if a.job:
        sc = S.Scratch(keep=a.keep)
        try:
            os.environ.setdefault("VERIF_NO_CACHE", "1")
            js = [J.by_name(n) for n in a.job]
            if a.kargs is not None:
                for j in js:
                    j.kargs = a.kargs.split()
            res = run_jobs(sc, js)
            for n, r in res.items():
                print(json.dumps({k: v for k, v in r.items() if k not in ("log_tail",)}, indent=1))
                if r.get("log_tail"):
                    print(r["log_tail"])
            if a.keep:
                print("scratch kept at", sc.root)
        finally:
            sc.cleanup()
        return 0
    if a.replay:
        return replay_file(a.pid, a.replay)
    if not a.pid:
        ap.error("property id required")
    return check_property(a.pid, a.tier, keep=a.keep)


def replay_file(pid, path):
    with open(path) as f:
        rec = json.load(f)
    test_src = rec.get("playback_test")
    if not test_src:
        print("no playback test recorded in %s" % path)
        return 2
    j = next(x for x in J.JOBS if x.path == rec["harness"])
    sc = S.Scratch()
    try:
        ok, rlog = native_replay(sc, j, test_src)
    finally:
        sc.cleanup()
    print(rlog[-3000:])
    if ok:
        print("VIOLATION property=%s replay=%s" % (rec["property"], path))
        return 1
    print("replay did not fail on the current tree")
    return 0 if ok is False else 2


if __name__ == "__main__":
    sys.exit(main())
