"""Job inventory: which Kani harness decides which property, at which tier, under which caps.

A *job* is one Kani proof harness (one solver-decided instance). Jobs with the same `group`
are run by one `cargo kani` invocation (cheap kernels share the compile step)."""


class Job:
    def __init__(self, name, pkg, module, props, tier="quick", cap_s=300, mem_gb=12, group=None,
                 owner=None, cls="A", slots=1, note="", encodes=(), bounds="", kargs=(), also=(), fn_name=None):
        self.name = name              # unique job name
        self.fn_name = fn_name or name  # harness function name inside `module`
        self.pkg = pkg                # cargo package
        self.module = module          # module path of the harness inside the crate
        self.props = list(props)      # properties whose tagged assertions live in this harness
        self.tier = tier              # quick | thorough (quick jobs are also part of thorough)
        self.cap_s = cap_s
        self.mem_gb = mem_gb
        self.group = group or name
        self.owner = owner or (self.props[0] if self.props else "C01")   # owner of untagged failures (panic/overflow/bounds/unwind)
        self.cls = cls                # A: no havoc inside stubs; B: contract stub (replay needs the native stub hook)
        self.slots = slots
        self.note = note
        self.encodes = list(encodes)  # real functions symbolically executed
        self.bounds = bounds
        self.kargs = list(kargs)      # extra cargo-kani flags (part of the cache key)
        self.also = list(also)        # umbrella properties that own every tagged assertion of this job

    @property
    def path(self):
        return self.module + "::" + self.fn_name if self.module else self.fn_name


FFI = "maybenot-ffi"
MB = "maybenot"
SIM = "maybenot-simulator"

JOBS = []


def add(*a, **k):
    JOBS.append(Job(*a, **k))


# ---------------------------------------------------------------- C20 (ffi)
add("f_convert_action", FFI, "verif_kani", ["C20"], cap_s=120, group="ffi_l0",
    encodes=["maybenot_ffi::convert_action", "From<Duration> for MaybenotDuration", "From<Timer> for MaybenotTimer"],
    bounds="none: every TriggerAction value (kind, any usize machine, flags, any Duration)")
add("f_convert_event", FFI, "verif_kani", ["C20"], cap_s=120, group="ffi_l0",
    encodes=["maybenot_ffi::convert_event"], bounds="none: 10 event types x any usize id")
add("f_null_paths", FFI, "verif_kani", ["C20"], cap_s=180, group="ffi_l0",
    encodes=["maybenot_on_events", "maybenot_num_machines", "maybenot_start (null out)"],
    bounds="null-pointer paths only")


for m, tier, cap in ((1, "quick", 600), (2, "quick", 900)):
    add("f_on_events_m%d" % m, FFI, "verif_kani", ["C20", "C04"] if m == 1 else ["C20"], tier=tier, cap_s=cap, mem_gb=16, group="f_on_events_m%d" % m, cls="B",
        encodes=["maybenot_on_events", "MaybenotFramework::on_events", "convert_event", "convert_action",
                 "Framework::trigger_events / process_event (real)"],
        bounds="%d machines, one TunnelRecv event with any id, every machine step returns ANY well-formed action; output buffer of "
               "exactly num_machines slots between two canaries; Instant::now stubbed to any instant" % m)

add("f_on_events_empty", FFI, "verif_kani", ["C20", "C04"], cap_s=600, mem_gb=16, group="f_on_events_empty", cls="B",
    encodes=["maybenot_on_events", "MaybenotFramework::on_events", "Framework::trigger_events (real)"],
    bounds="one machine, an EMPTY batch, stale count and buffer in the caller's variables")
for nm, tier, what in (("m1_bb", "thorough", "1 machine, BlockingBegin with any id (a global event whatever id it carries)"),
                       ("m1_bb_id0", "quick", "1 machine, BlockingBegin naming machine 0"),
                       ("m1_bb_idu", "quick", "1 machine, BlockingBegin naming a machine that does not exist (id 6): still a global event"),
                       ("m1_ps_idu", "quick", "1 machine, PaddingSent naming a machine that does not exist (id 6)"),
                       ("m2_bb", "thorough", "2 machines, BlockingBegin with any id"),
                       ("m1_ps0", "quick", "1 machine, PaddingSent for machine 0"),
                       ("m1_psu", "thorough", "1 machine, PaddingSent for any id that names no machine"),
                       ("m1_te0", "thorough", "1 machine, TimerEnd for machine 0")):
    add("f_on_events_" + nm, FFI, "verif_kani", ["C20"], tier=tier, cap_s=900, mem_gb=20, group="f_on_events_" + nm, cls="B",
        encodes=["maybenot_on_events", "MaybenotFramework::on_events", "convert_event", "convert_action",
                 "Framework::trigger_events / process_event (real)"],
        bounds=what + "; the machine step returns ANY well-formed action; canaries around the output slots")

# ---------------------------------------------------------------- C06 (state.rs)
for k, cap, tier in ((1, 120, "quick"), (2, 240, "quick"), (3, 1200, "quick"), (4, 2400, "thorough")):
    add("k_sample_state_k%d" % k, MB, "state::verif_kani", ["C06"], tier=tier, cap_s=cap,
        group="c06_k%d" % k if k > 1 else "mb_l0",
        encodes=["State::sample_state", "rand::Rng::gen_range::<f32> (UniformFloat::sample_single)"],
        bounds="row of K=%d alternatives with any f32 probabilities / any usize targets accepted by the "
               "documented well-formedness, any event, EVERY 32-bit random word" % k)
add("k_sample_state_exact_k2", MB, "state::verif_kani", ["C05"], cap_s=240, group="c06_k2",
    encodes=["State::sample_state"], bounds="K=2, every 32-bit word, exact threshold form")

# ---------------------------------------------------------------- C13 / C04 kernels (dist.rs, action.rs, counter.rs)
add("k_dist_clamp", MB, "dist::verif_kani", ["C13"], cap_s=120, group="mb_l0", cls="B",
    encodes=["Dist::sample"], bounds="sampler result = any f64 bit pattern; start, max any f64")
add("k_action_samples", MB, "dist::verif_kani", ["C04", "C07", "C08", "C13"], cap_s=180, group="mb_l0", cls="B",
    owner="C13",
    encodes=["Action::sample_timeout", "Action::sample_duration", "Action::sample_limit", "Action::has_limit",
             "Counter::sample_value", "Dist::sample"],
    bounds="all 4 action kinds, any flags, sampler results any f64, start/max any f64")
add("k_uniform_const", MB, "dist::verif_kani", ["C13"], cap_s=300, group="c13_uconst",
    encodes=["Dist::dist_sample (Uniform arm)", "Dist::sample"], bounds="any validated low == high")
add("k_uniform_real", MB, "dist::verif_kani", ["C13"], cap_s=900, mem_gb=16, group="c13_ureal",
    encodes=["Dist::dist_sample (Uniform arm)", "rand UniformFloat<f64>::sample_single"],
    bounds="any validated low < high, any 64-bit word with the top two bits clear, loop bound 2 (unwinding assertion)")

# ---------------------------------------------------------------- C12 kernels
add("k_validate_machine", MB, "machine::verif_kani", ["C12"], cap_s=300, group="c12_machine", cls="B",
    encodes=["Machine::validate"],
    bounds="0..=3 states; fractions any f64 bit pattern; budgets any u64; State::validate replaced by a ghost "
           "that may reject any one state (the state judgement has its own kernels)")


for k, tier in ((1, "quick"), (2, "quick")):
    add("k_validate_row_k%d" % k, MB, "state::verif_kani", ["C12", "C01"], owner="C12", tier=tier, cap_s=900, mem_gb=16, group="c12_row_k%d" % k,
        encodes=["State::validate (row judgement)"],
        bounds="one row of K=%d alternatives: targets any usize (pairwise distinct by assumption), probabilities any f32 bit "
               "pattern, 1..=STATE_MAX states; HashSet::insert stubbed to a no-op, RandomState::new to fixed keys" % k)
add("k_validate_state_dists", MB, "state::verif_kani", ["C12"], cap_s=600, mem_gb=12, group="c12_state_dists", cls="B",
    encodes=["State::validate", "Action::validate", "Counter::validate"],
    bounds="any action kind with / without limit, both counters with / without distribution; Dist::validate replaced by a "
           "ghost that may reject any one distribution")
for fam, tier, cap in (("uniform", "quick", 300), ("normal", "quick", 300), ("lognormal", "quick", 300),
                       ("skewnormal", "quick", 300), ("binomial", "quick", 300), ("geometric", "quick", 300),
                       ("pareto", "quick", 300), ("weibull", "quick", 300), ("poisson", "quick", 300),
                       ("gamma", "quick", 300), ("beta", "quick", 300)):
    add("k_dist_validate_" + fam, MB, "dist::verif_kani", ["C12", "C13"] if fam in ("poisson", "binomial", "geometric", "uniform") else ["C12"],
        tier=tier, cap_s=cap, mem_gb=12,
        group="c12_dist_" + fam, encodes=["Dist::validate (%s)" % fam, "rand_distr constructor"],
        bounds="parameters any f64 bit pattern (trials any u64); start/max any f64")

# ---------------------------------------------------------------- framework L0 limit predicates
FW = "framework::verif_kani"
add("k_below_padding", MB, FW, [], cap_s=300, group="fw_l0_pad", owner="C01",
    encodes=["Framework::below_limit_padding", "Framework::below_action_limits"],
    bounds="any u64 counters below 2^63, any budgets, fractions any real in [0,1], any state limit")
add("k_below_padding_own", MB, FW, [], cap_s=900, group="fw_l0_pad_own", owner="C01")
add("k_below_blocking", MB, FW, [], cap_s=300, group="fw_l0_block", owner="C01",
    encodes=["Framework::below_limit_blocking", "Framework::below_action_limits"],
    bounds="virtual clock: any u64 instants in any order, any accumulated durations, fractions any real in [0,1]")
add("k_below_padding_small", MB, FW, ["C02", "C07", "C05"], cap_s=900, mem_gb=16, group="fw_l0_pad_small", owner="C01",
    encodes=["Framework::below_limit_padding", "Framework::below_action_limits"],
    bounds="any budget, any state limit, both fractions any real in [0,1]; packet counts case-split over all 27 combinations of "
           "own paddings 0..=2, normal packets 0..=2, other machines' paddings 0..=2 (concrete operands fold the f64 quotients)")
add("k_below_blocking_small", MB, FW, ["C03", "C07", "C05"], cap_s=900, mem_gb=16, group="fw_l0_block_small", owner="C01",
    encodes=["Framework::below_limit_blocking", "Framework::below_action_limits"],
    bounds="any budget, any state limit, both fractions any real in [0,1], replace and active any; accumulated blocking 0..=2 us, "
           "ongoing 0..=2 us, elapsed since start 0..=3 us (36 combinations; virtual clock, backwards steps = 0 elapsed)")
add("k_below_other", MB, FW, ["C07", "C04", "C05"], cap_s=120, group="fw_l0_other", owner="C01",
    encodes=["Framework::below_action_limits"], bounds="timer / cancel / no action, any limit")

add("k_blocking_end_std", MB, FW, ["C01", "C03"], cap_s=600, mem_gb=12, group="k_blocking_end_std", owner="C01",
    encodes=["Framework::process_event (BlockingEnd)", "std::time::Instant::saturating_duration_since", "Duration += Duration"],
    bounds="std::time clock: any accumulated blocked Duration, any instants (seconds >= 0) in any order, zero machines")
add("k_framework_new", MB, FW, ["C12", "C01", "C07"], cap_s=900, mem_gb=16, group="k_framework_new", owner="C01", cls="B",
    encodes=["Framework::new"],
    bounds="two one-state machines with any first-state action kind (with / without limit), fractions any f64 bit pattern, any start "
           "time, any random tape; Machine::validate replaced by a ghost that may reject either machine, sample_limit by its contract")

L1_PROPS = ["C01", "C02", "C03", "C04", "C05", "C07", "C08", "C09", "C10"]
L1_STUBS = ("leaf contracts proved by the L0 kernels: sample_timeout/duration/limit/value, below_action_limits, "
            "sample_state (closed form of the uniform draw)")
for fam, tier, cap in (("fam21", "quick", 900), ("fam22", "thorough", 2400), ("fam32", "thorough", 3600)):
    sfx = "" if fam == "fam21" else "_" + fam
    add("l1a_transition" + sfx, MB, FW + "::" + fam, L1_PROPS, fn_name="l1a_transition", tier=tier, cap_s=cap, mem_gb=16, owner="C01", cls="B",
        group="l1a_" + fam, kargs=["--no-assertion-reach-checks"],
        encodes=["Framework::transition", "Framework::schedule_action"],
        bounds="one machine step from any Inv-state, any of the 13 events, family " + fam +
               " (S states, K alternatives per row, all action kinds/flags/counter specs symbolic); nested "
               "update_counter replaced by the reference (decided by l1b); " + L1_STUBS)
    add("l1b_pair" + sfx, MB, FW + "::" + fam, ["C08", "C10"], fn_name="l1b_pair", tier=tier, cap_s=cap, mem_gb=16, owner="C01", cls="B",
        group="l1bp_" + fam, kargs=["--no-assertion-reach-checks"],
        encodes=["Framework::update_counter"],
        bounds="two machines of one definition in one framework, machine 1 updates its counters after machine 0 "
               "possibly zeroed its own in the same call; family " + fam + "; " + L1_STUBS)
    add("l1b_update_counter" + sfx, MB, FW + "::" + fam, L1_PROPS, fn_name="l1b_update_counter", tier=tier, cap_s=cap, mem_gb=16, owner="C01", cls="B",
        group="l1b_" + fam, kargs=["--no-assertion-reach-checks"],
        encodes=["Framework::update_counter"],
        bounds="one counter update from any Inv-state, any u64 counter values, family " + fam +
               "; nested transition(CounterZero) replaced by the reference (decided by l1a); " + L1_STUBS)


L2_PROPS = ["C01", "C02", "C03", "C04", "C05", "C07", "C09", "C10"]
L2_ENC = ["Framework::trigger_events", "Framework::process_event", "Framework::decrement_limit"]
EVK = ["NormalRecv", "PaddingRecv", "TunnelRecv", "NormalSent", "PaddingSent", "TunnelSent", "BlockingBegin",
       "BlockingEnd", "TimerBegin", "TimerEnd"]
add("l2_m0", MB, FW + "::l2", L2_PROPS, tier="quick", cap_s=300, mem_gb=12, owner="C01", cls="B", group="l2_m0",
    kargs=["--no-assertion-reach-checks"], encodes=L2_ENC,
    bounds="one call, one fully symbolic event (10 kinds, any usize id), ZERO machines, any time")
L2_QUICK = {"l2_m2_e3", "l2_m2_e4_i1", "l2_m2_e4_iu", "l2_m2_e6", "l2_m2_e7", "l2_m2_e8_i1"}
for m, tier, cap in ((1, "quick", 900), (2, "quick", 1800)):
    # the two-machine batch is the long pole of the quick tier: only the signal properties (whose batch clauses need a
    # second machine to receive the signal) and the umbrella C05 run it in the quick tier
    add("l2_batch2_m%d" % m, MB, FW + "::l2", ["C01", "C04", "C05", "C08", "C09", "C10"] if m == 1 else ["C09", "C05"], tier=tier,
        cap_s=cap, mem_gb=16, owner="C01",
        cls="B", group="l2_batch2_m%d" % m, kargs=["--no-assertion-reach-checks"], encodes=L2_ENC,
        bounds="one call with a batch of TWO events, each any of NormalRecv / PaddingRecv / TunnelRecv / TunnelSent, %d machines, "
               "any Inv pre-state; machine steps by the transition contract TC" % m)
for m, tier0, cap in ((1, "thorough", 600), (2, "quick", 900), (3, "thorough", 2400)):
    for k in range(10):
        if k in (4, 8, 9):
            ids = ["i%d" % i for i in range(m)] + ["iu"]
        else:
            ids = [""]
        for ic in ids:
            name = "l2_m%d_e%d%s" % (m, k, "_" + ic if ic else "")
            idtxt = {"": "any usize id", "iu": "any id that names no machine"}.get(ic, "id = machine " + ic[1:])
            tier = "quick" if name in L2_QUICK else "thorough"
            add(name, MB, FW + "::l2", L2_PROPS, tier=tier, cap_s=cap, mem_gb=16, owner="C01", cls="B",
                group=name, kargs=["--no-assertion-reach-checks"], encodes=L2_ENC,
                bounds="one call reporting one %s event (%s), %d machines, any Inv pre-state, any (also backwards) "
                       "time; every machine step replaced by the transition contract TC (havoc + ghost record) "
                       "that L1 proves for the real step" % (EVK[k], idtxt, m))


# ---------------------------------------------------------------- simulator step contracts
SK = "verif_kani"
add("s_trigger_update", SIM, SK, ["C17", "C18"], cap_s=600, mem_gb=16, group="s_trigger_update", owner="C19", cls="B",
    encodes=["maybenot_simulator::trigger_update", "Framework::trigger_events / process_event (real)", "SimQueue::push_sim"],
    bounds="one side with one machine, one global event, the machine step returns ANY well-formed action "
           "(kind, flags, timeout and duration up to a day); pending action and internal timer arbitrary; any instants; "
           "no integration delays")
add("s_do_scheduled_action", SIM, SK, ["C16", "C17"], cap_s=600, mem_gb=16, group="s_do_scheduled_action", owner="C19",
    encodes=["maybenot_simulator::do_scheduled_action"],
    bounds="client with 2 machines, server with 1; every pending action slot arbitrary (none / padding / blocking, any "
           "flags, any due time); blocking state of both sides arbitrary; target = due time of some pending action")
add("s_do_internal_timer", SIM, SK, ["C18"], cap_s=300, mem_gb=12, group="s_do_internal_timer", owner="C19",
    encodes=["maybenot_simulator::do_internal_timer"],
    bounds="client with 2 machines, server with 1; every internal timer arbitrary; target = expiry of some timer")
add("s_peek_action", SIM, SK, ["C17"], tier="thorough", cap_s=1200, mem_gb=12, group="s_peek_a", owner="C19",
    encodes=["queue_peek::peek_scheduled_action"], bounds="2 + 1 pending-action slots, any instants")
add("s_peek_internal", SIM, SK, ["C18"], tier="thorough", cap_s=900, mem_gb=12, group="s_peek_i", owner="C19",
    encodes=["queue_peek::peek_scheduled_internal_timer"], bounds="2 + 1 internal-timer slots, any instants")
add("s_peek_action_q", SIM, SK, ["C17"], cap_s=600, mem_gb=12, group="s_peek_aq", owner="C19",
    encodes=["queue_peek::peek_scheduled_action"], bounds="1 + 1 pending-action slots, any instants")
add("s_peek_action_q2", SIM, SK, ["C17"], cap_s=900, mem_gb=12, group="s_peek_aq2", owner="C19",
    encodes=["queue_peek::peek_scheduled_action"], bounds="2 pending-action slots on one side, any instants")
add("s_peek_internal_q", SIM, SK, ["C18"], cap_s=600, mem_gb=12, group="s_peek_iq", owner="C19",
    encodes=["queue_peek::peek_scheduled_internal_timer"], bounds="1 + 1 internal-timer slots, any instants")
add("s_peek_blocked", SIM, SK, ["C16"], cap_s=300, mem_gb=12, group="s_peek", owner="C19",
    encodes=["queue_peek::peek_blocked_exp"], bounds="both sides' blocking expiry arbitrary (at or after now)")


for nm, what in (("normal_sent", "NormalSent"), ("tunnel_sent", "TunnelSent"), ("tunnel_recv", "TunnelRecv")):
    add("s_stack_" + nm, SIM, SK, ["C14", "C15"], cap_s=600, mem_gb=20, group="s_stack_" + nm, owner="C19",
        encodes=["network::sim_network_stack (%s)" % what, "NetworkBottleneck::sample", "WindowCount::add", "SimQueue::push_sim"],
        bounds="one %s event, any side, any padding flag, empty queue, any network delay up to 10 s, no machines, "
               "no integration delays, fresh rate window" % what)
for nm, what, tier in (("empty", "no packet queued, any bypass flag", "quick"),
                       ("queued", "one normal packet queued on that side, padding without bypass", "thorough"),
                       ("queued_bypass", "one normal packet queued on that side, padding with bypass", "thorough")):
    add("s_stack_padding_sent_" + nm, SIM, SK, ["C15", "C16"], tier=tier, cap_s=900, mem_gb=24, group="s_stack_pad_" + nm, owner="C19",
        encodes=["network::sim_network_stack (PaddingSent)", "SimQueue::peek_blocking / pop_blocking", "delay::agg_delay_on_padding_bypass_replace"],
        bounds="one PaddingSent with any replace flag, %s, any blocking state, network delay 1 ms" % what)
add("s_bottleneck_sample", SIM, "network::verif_kani", [], cap_s=900, mem_gb=16, group="s_bottleneck_sample", owner="C19",
    encodes=["NetworkBottleneck::sample", "WindowCount::add"],
    bounds="two packets at any two ordered instants on one side, limit >= 2, window 1 s (capacity-4 buffers)")
add("s_bottleneck_new", SIM, SK, ["C19"], cap_s=300, mem_gb=12, group="s_bottleneck_new",
    encodes=["NetworkBottleneck::new", "WindowCount::new"], bounds="every packets-per-second limit >= 1 (network and trace-derived)")
add("s_pick_next_two", SIM, SK, ["C14", "C15", "C19"], cap_s=1200, mem_gb=16, group="s_pick_next_two", owner="C19",
    encodes=["pick_next", "queue_peek::peek_queue", "SimQueue::peek / pop", "peek_scheduled_* (empty)"],
    bounds="two queued NormalSent packets (one per side) at any two instants up to 1000 s after now, no machines, no blocking")


add("s_stack_padding_replace_flags", SIM, SK, ["C15", "C16"], tier="thorough", cap_s=900, mem_gb=24, group="s_stack_pad_flags", owner="C19",
    encodes=["network::sim_network_stack (PaddingSent, bypass + replace path)", "SimQueue::peek_blocking / pop_blocking",
             "delay::agg_delay_on_padding_bypass_replace", "NetworkBottleneck::push_aggregate_delay"],
    bounds="concrete instants (packet queued at t0, padding at t0 + 1 s, blocking until t0 + 5 s); symbolic: whether the blocking "
           "allows bypass and whether the waiting normal packet may already bypass")
add("s_no_normal_packets", SIM, SK, ["C15"], cap_s=600, mem_gb=16, group="s_no_normal_packets", owner="C19",
    encodes=["SimQueue::no_normal_packets", "EventQueue::no_normal_packets", "EventQueue::push"],
    bounds="one pending event of any queueable kind (normal/padding, bypass flag any) on either side")
add("s_push_aggregate_delay", SIM, SK, ["C19"], cap_s=900, mem_gb=16, group="s_push_aggregate_delay",
    encodes=["NetworkBottleneck::push_aggregate_delay", "NetworkBottleneck::peek_aggregate_delay"],
    bounds="any network delay and blocked duration up to one hour, either side, any instant")
for side in ("client", "server"):
    for when, tier in (("before", "quick"), ("at", "thorough"), ("after", "thorough"), ("tie", "thorough")):
        add("s_pick_next_blocked_%s_%s" % (side, when), SIM, SK, ["C16", "C15", "C19"] if when in ("at", "after") else ["C16"], tier=tier,
            cap_s=900 if when == "tie" else 1800, mem_gb=24, group="s_pick_next_blocked_%s_%s" % (side, when), owner="C19",
            encodes=["pick_next", "queue_peek::peek_queue", "queue_peek::peek_queue_earliest_side", "peek_blocked_exp",
                     "SimQueue::peek_blocking / pop"],
            bounds="the %s blocked until t0 + 5 s (both sides' bypass flags arbitrary), one TunnelSent packet (normal or padding, "
                   "bypass flag any) queued on that side %s the expiry (concrete instants; 'tie': before the expiry, plus a BlockOutgoing "
                   "action of a machine on that side due exactly at the expiry), no other pending timers" % (side, when))


# C05 (actions are exactly what the documented semantics prescribe) is broken by ANY semantic deviation
# of the framework: it co-owns every tagged assertion of the framework harnesses it runs.
for _j in JOBS:
    if _j.pkg == MB and "C05" in _j.props:
        _j.also = ["C05"]


def jobs_for(prop, tier):
    out = []
    for j in JOBS:
        if prop in j.props and (tier == "thorough" or j.tier == "quick"):
            out.append(j)
    return out


def by_name(name):
    for j in JOBS:
        if j.name == name:
            return j
    raise KeyError(name)
