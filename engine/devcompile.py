#!/usr/bin/env python3
"""development aid: compile the harnesses of a package in a scratch copy (no verification)"""
import os, subprocess, sys
sys.path.insert(0, os.path.dirname(os.path.abspath(__file__)))
import scratch
pkg = sys.argv[1] if len(sys.argv) > 1 else "maybenot"
s = scratch.Scratch()
try:
    td = s.root + "/kt"
    tpl = os.path.join(scratch.VERIF, ".cache/kt_template", pkg)
    if os.path.exists(tpl):
        subprocess.run(["cp", "-a", tpl, td])
    env = dict(os.environ, CARGO_NET_OFFLINE="true")
    p = subprocess.run(["cargo", "kani", "-p", pkg, "-Z", "stubbing", "--target-dir", td, "--only-codegen"],
                       cwd=s.repo, env=env, stdout=subprocess.PIPE, stderr=subprocess.STDOUT, text=True)
    out = p.stdout.replace(s.root, "")
    lines = out.splitlines()
    keep = [l for i, l in enumerate(lines) if l.startswith(("error", "warning: unused")) or "-->" in l or l.startswith(("  |", "   |")) or "^" in l]
    print("\n".join(lines[-60:]) if p.returncode and not keep else "\n".join(keep[:120]))
    print("rc", p.returncode)
finally:
    s.cleanup()
